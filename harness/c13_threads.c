/* C13 -- advertised thread safety: concurrent API use is serialised and never deadlocks.
 *
 * libcoap is compiled with exactly the coap_config.h / coap_defines.h that the repository's own CMake
 * configure step emits for the current tree (epoll, COAP_THREAD_SAFE as CMake defines it).  Real pthreads
 * run under a cooperative scheduler: exactly one thread runs at a time; scheduling points are the
 * operations on libcoap's global lock (pthread_mutex_lock / trylock / unlock on global_lock.mutex,
 * interposed from this executable), the blocking epoll_wait() of the I/O thread, thread start and exit.
 * vx enumerates all schedules with at most B preemptions (CHESS-style iterative context bounding).
 *
 * Two scenario families: "c13:" (API-call menu against request / response / NACK / event callbacks) and "c13x:" (every other
 * call-out libcoap makes into the application while other threads are alive: ping and pong handlers over UDP - keep-alive
 * on an idle session, answered by RST by the own server endpoint and by a raw peer, raw empty CON - and over TCP - 7.02 /
 * 7.03 signalling against a raw stream peer -, cache-entry app-data free on idle expiry, resource user-data release, large-
 * data release, observe persist tracking call-outs; virtual time passes while the API threads are alive because an API
 * thread sleeps).  Every callback re-enters lock-taking public API.
 *
 * Oracles: (1) ownership invariant: whenever a function whose name ends in _lkd (the repository's own
 * convention for "caller holds the lock"), or one of the dispatch functions, is entered while more than
 * one thread is alive, the entering thread owns the global lock (checked through -finstrument-functions
 * on the library objects); (2) no deadlock (no enabled thread while some are unfinished), no livelock
 * (step horizon), lock free and callback counters zero at the end; a thread that calls pthread_mutex_lock() on the global lock
 * it already owns (non-recursive mutex: it can never return) is reported on the spot with the callback it is in;
 * (3) every request answered; (4) ASan.
 */
#include "netsim.h"
#include "wire.h"
#include <dlfcn.h>
#include <pthread.h>
#include <sys/epoll.h>
#include <unistd.h>

#ifndef COAP_EPOLL_SUPPORT
#error "C13 expects the epoll configuration the repository's build system produces"
#endif

#ifndef C13_BUILD
#define C13_BUILD "" /* "@at" when the library was configured by the autotools build system */
#endif
/* the global lock object, if the library has one (first member is the mutex in both layouts) */
#if COAP_THREAD_SAFE
#define GLOBAL_MUTEX ((void *)&global_lock.mutex)
#define IN_CALLBACK ((unsigned)global_lock.in_callback)
#else
#define IN_CALLBACK 0u
/* locking is compiled out of the library in this configuration: there is no global lock object at all */
#define GLOBAL_MUTEX ((void *)0)
#endif

/* ------------------------------------------------------------------------------------------ */
/* scheduler                                                                                   */
#define MAXT 5
enum { T_NEW, T_RUN, T_BLOCKED, T_WAITIO, T_WAITASYNC, T_DONE };
static struct {
  pthread_t th;
  int state;
  int steps;
  const char *name;
} T[MAXT];
static int nthreads;
static volatile int cur = -1;
static volatile int lock_owner = -1; /* thread id owning global_lock.mutex, -1 free */
static int sched_on;
static int armed; /* ownership invariant armed */
static __thread int my_id = -1;
static pthread_mutex_t smu = PTHREAD_MUTEX_INITIALIZER;
static pthread_cond_t scv = PTHREAD_COND_INITIALIZER;
static int (*real_lock)(pthread_mutex_t *), (*real_unlock)(pthread_mutex_t *), (*real_trylock)(pthread_mutex_t *);
static int preemptions;

#define NOINSTR __attribute__((no_instrument_function))

static NOINSTR void
resolve(void) {
  if (!real_lock) {
    real_lock = (int (*)(pthread_mutex_t *))dlsym(RTLD_NEXT, "pthread_mutex_lock");
    real_unlock = (int (*)(pthread_mutex_t *))dlsym(RTLD_NEXT, "pthread_mutex_unlock");
    real_trylock = (int (*)(pthread_mutex_t *))dlsym(RTLD_NEXT, "pthread_mutex_trylock");
  }
}
static NOINSTR int async_ready(void);
static NOINSTR int stream_readable(void);
static uint64_t io_deadline; /* virtual time at which the blocking epoll_wait() of the I/O thread times out */
static NOINSTR int
enabled(int t) {
  if (T[t].state == T_RUN)
    return 1;
  if (T[t].state == T_BLOCKED)
    return lock_owner == -1;
  if (T[t].state == T_WAITASYNC)
    return async_ready();
  if (T[t].state == T_WAITIO)
    /* readiness wakes the I/O thread; so does its timeout once virtual time (moved by a sleeping API thread) has reached it;
     * otherwise the timeout is taken only when nothing else can run */
    return ns_inflight_count() > 0 || stream_readable() || ns_now() >= io_deadline;
  return 0;
}
static NOINSTR void
dump_threads(char *b, size_t n) {
  size_t o = 0;
  for (int t = 0; t < nthreads; t++)
    o += (size_t)snprintf(b + o, n - o, "%s%s:%s", t ? " " : "", T[t].name,
                          T[t].state == T_NEW ? "new" : T[t].state == T_RUN ? "runnable" : T[t].state == T_BLOCKED ? "blocked-on-lock" : T[t].state == T_WAITIO ? "in-epoll_wait" : T[t].state == T_WAITASYNC ? "waiting-for-async" : "done");
  snprintf(b + o, n - o, " lock_owner=%s", lock_owner < 0 ? "none" : T[lock_owner].name);
}
static const char *last_callback = "none";

static __thread const char *cb_stack[8]; /* application callbacks this thread is inside of (nesting: callback -> API -> callback) */
static __thread int cb_depth;
static __thread const char *last_lkd; /* the monitored (_lkd / dispatch) library function this thread entered last */
static NOINSTR void dump_threads(char *b, size_t n);
#ifdef C13_RACE
#include "c13_race.h" /* happens-before race detection on every explored schedule (stage c13race) */
#else
#define rc_acquire(m, g) ((void)0)
#define rc_release(m, g) ((void)0)
#define rc_arm() ((void)0)
#define rc_exec_init() ((void)0)
#define rc_global_init() ((void)0)
#define rc_thread_stack(t) ((void)0)
#endif

/* called with smu held by the running thread; picks the next thread and hands over.
 * me_enabled: 0 = the caller cannot continue, 1 = it can (switching away is a preemption, cost 1),
 * 2 = it can, but it is returning from a blocking call (sleep): switching away is free, as in CHESS */
static NOINSTR void
schedule(const char *label, int me_enabled) {
  int en[MAXT], n = 0;
  uint8_t cost[MAXT];
  if (me_enabled) {
    cost[n] = 0;
    en[n++] = my_id;
  }
  for (int t = 0; t < nthreads; t++)
    if (t != my_id && enabled(t)) {
      cost[n] = me_enabled == 1 ? 1 : 0;
      en[n++] = t;
    }
  if (n == 0) {
    /* nobody can run: a thread blocked in epoll_wait() wakes up by timeout */
    for (int t = 0; t < nthreads; t++)
      if (T[t].state == T_WAITIO) {
        en[n] = t;
        cost[n++] = 0;
        break;
      }
  }
  if (n == 0) {
    int alldone = 1;
    for (int t = 0; t < nthreads; t++)
      if (T[t].state != T_DONE)
        alldone = 0;
    if (alldone)
      return;
    char d[300], sig[120];
    dump_threads(d, sizeof d);
    snprintf(sig, sizeof sig, "deadlock:after-callback:%s", last_callback);
    vx_fail(sig, "no thread can run: %s (at %s in %s)", d, label, T[my_id].name);
    vx_exit_now();
  }
  if (++T[my_id].steps > 4000) {
    vx_fail("livelock:step-horizon", "thread %s passed 4000 scheduling points", T[my_id].name);
    vx_exit_now();
  }
  if (n > 1 && getenv("C13_PTS"))
    vx_observe("pt %s in %s n=%d", label, T[my_id].name, n);
  int c = vx_choose(n, cost, label);
  int next = en[c];
  if (me_enabled == 1 && next != my_id) {
    preemptions++;
    vx_nontrivial();
  }
  if (next != my_id) {
    vx_trace("   [sched] %s -> %s at %s", T[my_id].name, T[next].name, label);
    cur = next;
    pthread_cond_broadcast(&scv);
    if (T[my_id].state == T_DONE)
      return; /* an exiting thread hands over and leaves */
    while (cur != my_id)
      pthread_cond_wait(&scv, &smu);
  }
}

static NOINSTR void
sched_point(const char *label) {
  if (!sched_on || my_id < 0)
    return;
  real_lock(&smu);
  schedule(label, 1);
  real_unlock(&smu);
}

static NOINSTR int
is_global(pthread_mutex_t *m) {
  return GLOBAL_MUTEX && (void *)m == GLOBAL_MUTEX;
}

NOINSTR int
pthread_mutex_lock(pthread_mutex_t *m) {
  resolve();
  if (!sched_on || my_id < 0 || !is_global(m)) {
    int r = real_lock(m);
    rc_acquire(m, 0);
    return r;
  }
  real_lock(&smu);
  if (lock_owner == my_id) {
    /* non-recursive mutex locked again by its owner: this call never returns, the thread hangs holding the global lock */
    char sig[120], d[300];
    dump_threads(d, sizeof d);
    if (cb_depth)
      snprintf(sig, sizeof sig, "self-deadlock:relock-inside-callback:%s", cb_stack[cb_depth - 1]);
    else /* library code that runs with the lock held calls a lock-taking public function */
      snprintf(sig, sizeof sig, "self-deadlock:relock-outside-callback:after-entering:%s", last_lkd ? last_lkd : "none");
    vx_fail(sig, "thread %s calls pthread_mutex_lock() on the global lock it already owns (application callback it is inside of: %s, "
                 "in_callback=%u): the call can never return and every other thread blocks on its next API call; %s",
            T[my_id].name, cb_depth ? cb_stack[cb_depth - 1] : "none", IN_CALLBACK, d);
    vx_exit_now();
  }
  schedule("lock", 1);
  while (lock_owner != -1) {
    T[my_id].state = T_BLOCKED;
    schedule("blocked", 0);
  }
  T[my_id].state = T_RUN;
  lock_owner = my_id;
  rc_acquire(m, 1);
  real_unlock(&smu);
  return real_lock(m);
}
NOINSTR int
pthread_mutex_trylock(pthread_mutex_t *m) {
  resolve();
  if (!sched_on || my_id < 0 || !is_global(m)) {
    int r = real_trylock(m);
    if (r == 0)
      rc_acquire(m, 0);
    return r;
  }
  real_lock(&smu);
  schedule("trylock", 1);
  if (lock_owner != -1) {
    real_unlock(&smu);
    return EBUSY;
  }
  lock_owner = my_id;
  rc_acquire(m, 1);
  real_unlock(&smu);
  return real_trylock(m);
}
NOINSTR int
pthread_mutex_unlock(pthread_mutex_t *m) {
  resolve();
  if (!sched_on || my_id < 0 || !is_global(m)) {
    rc_release(m, 0);
    return real_unlock(m);
  }
  rc_release(m, 1);
  int r = real_unlock(m);
  real_lock(&smu);
  if (lock_owner != my_id) {
    vx_fail("unlock:not-owner", "thread %s unlocked the global lock owned by %s", T[my_id].name, lock_owner < 0 ? "nobody" : T[lock_owner].name);
  }
  lock_owner = -1;
  schedule("unlock", 1);
  real_unlock(&smu);
  return r;
}

/* ------------------------------------------------------------------------------------------ */
/* ownership invariant via -finstrument-functions on the library objects                       */
struct sym {
  uintptr_t addr;
  char name[48];
};
static struct sym *syms;
static int nsyms;
static int violations_reported;

static NOINSTR void
load_symbols(void) {
  char cmd[600], exe[400];
  ssize_t l = readlink("/proc/self/exe", exe, sizeof exe - 1);
  if (l <= 0)
    return;
  exe[l] = 0;
  snprintf(cmd, sizeof cmd, "nm -n '%s'", exe);
  FILE *f = popen(cmd, "r");
  if (!f)
    return;
  char line[400];
  int cap = 0;
  static const char *extra[] = {"coap_dispatch", "coap_read_session", "coap_retransmit", "handle_request", "handle_response", NULL};
  while (fgets(line, sizeof line, f)) {
    unsigned long a;
    char ty, nm[300];
    if (sscanf(line, "%lx %c %299s", &a, &ty, nm) != 3)
      continue;
    if (ty != 't' && ty != 'T')
      continue;
    size_t nl = strlen(nm);
    int want = nl > 4 && !strcmp(nm + nl - 4, "_lkd");
    for (int i = 0; extra[i] && !want; i++)
      if (!strcmp(nm, extra[i]))
        want = 1;
    /* gcc may clone: foo_lkd.part.0 / .constprop */
    char *dot = strchr(nm, '.');
    if (!want && dot) {
      size_t bl = (size_t)(dot - nm);
      if (bl > 4 && !strncmp(dot - 4, "_lkd", 4))
        want = 1;
    }
    if (!want)
      continue;
    if (nsyms == cap) {
      cap = cap ? cap * 2 : 256;
      syms = realloc(syms, sizeof *syms * (size_t)cap);
    }
    syms[nsyms].addr = a;
    snprintf(syms[nsyms].name, sizeof syms[nsyms].name, "%s", nm);
    nsyms++;
  }
  pclose(f);
}

void __cyg_profile_func_enter(void *fn, void *site) NOINSTR;
void __cyg_profile_func_exit(void *fn, void *site) NOINSTR;
void
__cyg_profile_func_enter(void *fn, void *site) {
  (void)site;
  if (!armed || my_id < 0 || violations_reported)
    return;
  uintptr_t a = (uintptr_t)fn;
  int lo = 0, hi = nsyms - 1;
  while (lo <= hi) {
    int mid = (lo + hi) / 2;
    if (syms[mid].addr == a) {
      last_lkd = syms[mid].name;
      if (lock_owner != my_id) {
        char sig[120];
        snprintf(sig, sizeof sig, "unlocked-entry:%s", syms[mid].name);
        violations_reported = 1;
        vx_fail(sig, "thread %s entered %s() without owning the global lock (owner: %s) while %d threads are alive", T[my_id].name,
                syms[mid].name, lock_owner < 0 ? "nobody" : T[lock_owner].name, nthreads);
        vx_exit_now(); /* library state is unprotected from here on: nothing further is meaningful */
      }
      return;
    }
    if (syms[mid].addr < a)
      lo = mid + 1;
    else
      hi = mid - 1;
  }
}
void
__cyg_profile_func_exit(void *fn, void *site) {
  (void)fn;
  (void)site;
}

/* ------------------------------------------------------------------------------------------ */
/* scenario                                                                                    */
struct cfg {
  char name[120];
  int nworkers;
  int ops[3][2]; /* per worker up to 2 ops, -1 = none */
  int bound;
  int flags;
};
/* scenario flags of the "c13x:" family */
#define F_CBX 1     /* ping / pong / resource-user-data-release handlers registered, keep-alive on, client session to a raw UDP peer */
#define F_TCP 2     /* + CoAP-over-TCP client session to a raw stream peer (CSM, 7.02 Ping, 7.03 Pong) */
#define F_PERSIST 4 /* + observe persist tracking call-outs (coap_persist_track_funcs) registered after set-up */
#define F_MANY 16   /* 12 more UDP client sessions (own sockets); OP_MANY_IN lets a datagram arrive at each of them at the same moment,
                     * more ready sockets than one epoll_wait of the library takes (COAP_MAX_EPOLL_EVENTS 10) */
#define F_NEST 8    /* NACK / event / ping / pong callbacks delete a resource with user data: a call-out nested inside a callback */
#define KEEPALIVE_S 2
#define SLEEP_MS 2100 /* > keep-alive period and > idle timeout of the cache entry */
#define POST_ADVANCE_MS 1500u /* < keep-alive period: virtual time that may pass once all API threads have finished */
#define RAW_HOST 7
#define RAWTCP_HOST 8
enum {
  OP_SEND, OP_NOTIFY, OP_SESSION, OP_RESOURCE, OP_CACHE, OP_REF, OP_SEND_DEAD, OP_ASYNC_TRIGGER, OP_NEWPEER,
  OP_NOPS, /* menu of the "c13:" family ends here; the following ops are used by "c13x:" scenarios only */
  OP_SLEEP = OP_NOPS, OP_RAW_PING, OP_SEND_PING, OP_CACHE_APP, OP_RESOURCE_UD, OP_SEND_LARGE, OP_OBSERVE, OP_DEREGISTER, OP_NEWCTX_FAIL, OP_MANY_IN,
  OP_ALL
};
static coap_session_t *extra_sess[MAXT];
static const char *op_names[] = {"send", "notify", "session", "resource", "cache", "ref", "send-dead", "async-trigger", "new-peer",
                                 "sleep", "raw-ping", "send-ping", "cache-app", "resource-ud", "send-large", "observe", "deregister", "new-context-bind-fails", "many-datagrams"};

static struct cfg *C;
static coap_context_t *ctx;
static coap_session_t *cs, *dead, *rawc, *tcps;
#define NMANY 12
static coap_session_t *many[NMANY];
static coap_address_t many_local[NMANY];
static ns_stream_t *tcp_stream;
static coap_resource_t *res_r, *res_q;
static coap_address_t srv, deadpeer, rawpeer, rawtcp;
static uint64_t post_advanced;
static int tearing_down; /* run() is releasing the objects the callbacks would re-enter with */
static int ping_seen, pong_seen, callout_seen, reentry_returns, raw_rst_sent, raw_pong_sent;
static int workers_done, setup_done;
static int req_sent, resp_seen, nack_seen, ev_seen, handler_calls, reentry_sends;
static coap_async_t *pend_async;
static int workers_done_io; /* the I/O thread finished: nobody will register an async entry any more */
static int io_idle;

static void
cb_enter(const char *name) {
  last_callback = name;
  if (cb_depth < 8)
    cb_stack[cb_depth] = name;
  cb_depth++;
}
static void
cb_leave(void) {
  cb_depth--;
}

static void hnd_get_body(coap_resource_t *resource, coap_session_t *session, const coap_pdu_t *request, coap_pdu_t *response);
static void
hnd_get(coap_resource_t *resource, coap_session_t *session, const coap_pdu_t *request, const coap_string_t *query,
        coap_pdu_t *response) {
  (void)query;
  cb_enter("request-handler");
  hnd_get_body(resource, session, request, response);
  cb_leave();
}
static void
hnd_get_body(coap_resource_t *resource, coap_session_t *session, const coap_pdu_t *request, coap_pdu_t *response) {
  sched_point("in-callback:request-handler"); /* the application may be preempted inside its callback */
  handler_calls++;
  vx_observe("cb request-handler in %s (call %d)", my_id >= 0 ? T[my_id].name : "main", handler_calls);
  /* re-enter the public API from inside the callback */
  (void)coap_session_get_addr_remote(session);
  (void)coap_session_get_state(session);
  if (resource == res_r)
    coap_resource_notify_observers(res_q, NULL);
  coap_opt_iterator_t oi;
  if (resource == res_q && coap_check_option(request, COAP_OPTION_URI_QUERY, &oi)) {
    /* async style: register, answer later from a worker's coap_async_trigger */
    coap_bin_const_t tok = coap_pdu_get_token(request);
    if (!coap_find_async(session, tok)) {
      pend_async = coap_register_async(session, request, 0);
      if (pend_async)
        return;
    }
  }
  coap_pdu_set_code(response, COAP_RESPONSE_CODE_CONTENT);
  coap_add_data(response, 2, (const uint8_t *)"ok");
}

/* what an application typically does with the session it is called back for: pin it, look at it, unpin it - two lock-taking
 * public API calls from inside the callback */
static void
reenter(coap_session_t *s) {
  if (tearing_down || !s)
    return;
  coap_session_reference(s);
  (void)coap_session_get_state(s);
  coap_session_release(s);
  reentry_returns++;
}

/* A callback inside a callback: the resource's user-data release call-out runs while the outer callback is still in
 * progress, and the outer callback goes on using the API afterwards. */
static int nest_tag, nest_depth, nested_seen;
static void
nested_callout(coap_session_t *s) {
  if (!(C->flags & F_NEST) || tearing_down || nest_depth)
    return;
  nest_depth++;
  coap_resource_t *r = coap_resource_init(coap_make_str_const("nest"), 0);
  if (r) {
    coap_resource_set_userdata(r, &nest_tag);
    coap_add_resource(ctx, r);
    coap_delete_resource(ctx, r); /* => release_userdata_cb, nested */
  }
  nest_depth--;
  reenter(s);
  nested_seen++;
}

static coap_response_t
resp_handler(coap_session_t *session, const coap_pdu_t *sent, const coap_pdu_t *received, const coap_mid_t mid) {
  (void)sent;
  (void)mid;
  cb_enter("response-handler");
  sched_point("in-callback:response-handler"); /* the application may be preempted inside its callback */
  vx_observe("cb response-handler in %s", my_id >= 0 ? T[my_id].name : "main");
  coap_opt_iterator_t oi;
  if (!coap_check_option(received, COAP_OPTION_OBSERVE, &oi))
    resp_seen++;
  (void)coap_session_max_pdu_size(session);
  if (reentry_sends < 1 && session == cs) {
    reentry_sends++;
    coap_pdu_t *p = coap_new_pdu(COAP_MESSAGE_NON, COAP_REQUEST_CODE_GET, session);
    if (p) {
      uint8_t t = 0x7E;
      coap_add_token(p, 1, &t);
      coap_add_option(p, COAP_OPTION_URI_PATH, 1, (const uint8_t *)"r");
      if (coap_send(session, p) != COAP_INVALID_MID)
        req_sent++;
    }
  }
  cb_leave();
  return COAP_RESPONSE_OK;
}
static void
nack_handler(coap_session_t *session, const coap_pdu_t *sent, const coap_nack_reason_t reason, const coap_mid_t mid) {
  (void)sent;
  (void)reason;
  (void)mid;
  cb_enter("nack-handler");
  sched_point("in-callback:nack-handler"); /* the application may be preempted inside its callback */
  nack_seen++;
  vx_observe("cb nack-handler in %s", my_id >= 0 ? T[my_id].name : "main");
  (void)coap_session_get_state(session);
  (void)coap_session_get_addr_local(session);
  if (C->flags & F_CBX)
    reenter(session);
  nested_callout(session);
  cb_leave();
}
static int
event_handler(coap_session_t *session, const coap_event_t event) {
  (void)event;
  cb_enter("event-handler");
  sched_point("in-callback:event-handler"); /* the application may be preempted inside its callback */
  ev_seen++;
  vx_observe("cb event-handler in %s", my_id >= 0 ? T[my_id].name : "main");
  (void)coap_session_get_type(session);
  (void)coap_session_get_app_data(session);
  if (C->flags & F_CBX)
    reenter(session);
  nested_callout(session);
  cb_leave();
  return 0;
}

/* ---- the call-outs of the "c13x:" family ---- */
static void
ping_handler(coap_session_t *session, const coap_pdu_t *received, const coap_mid_t mid) {
  (void)received;
  (void)mid;
  cb_enter("ping-handler");
  sched_point("in-callback:ping-handler");
  ping_seen++;
  vx_observe("cb ping-handler in %s (%s session, %s)", my_id >= 0 ? T[my_id].name : "main",
             coap_session_get_type(session) == COAP_SESSION_TYPE_CLIENT ? "client" : "server",
             coap_session_get_proto(session) == COAP_PROTO_TCP ? "tcp" : "udp");
  reenter(session);
  nested_callout(session);
  cb_leave();
}
static void
pong_handler(coap_session_t *session, const coap_pdu_t *received, const coap_mid_t mid) {
  (void)received;
  (void)mid;
  cb_enter("pong-handler");
  sched_point("in-callback:pong-handler");
  pong_seen++;
  vx_observe("cb pong-handler in %s (%s, peer %s)", my_id >= 0 ? T[my_id].name : "main",
             coap_session_get_proto(session) == COAP_PROTO_TCP ? "tcp 7.03" : "udp RST for keep-alive",
             session == cs ? "own endpoint" : "raw");
  reenter(session);
  nested_callout(session);
  cb_leave();
}
static int cache_tag[MAXT], res_tag[MAXT], large_tag[MAXT];
static void
cache_free_cb(void *data) {
  cb_enter("cache-app-data-free");
  sched_point("in-callback:cache-app-data-free");
  callout_seen++;
  vx_observe("cb cache-app-data-free in %s (entry of w%d)", my_id >= 0 ? T[my_id].name : "main", (int)((int *)data - cache_tag));
  reenter(cs);
  cb_leave();
}
static void
release_userdata_cb(void *data) {
  cb_enter("resource-release-userdata");
  sched_point("in-callback:resource-release-userdata");
  callout_seen++;
  if (data == (void *)&nest_tag)
    vx_observe("cb resource-release-userdata in %s (nested inside %s)", my_id >= 0 ? T[my_id].name : "main", "another callback");
  else
    vx_observe("cb resource-release-userdata in %s (resource of w%d)", my_id >= 0 ? T[my_id].name : "main", (int)((int *)data - res_tag));
  reenter(cs);
  cb_leave();
}
static void
large_release_cb(coap_session_t *session, void *app_ptr) {
  cb_enter("large-data-release");
  sched_point("in-callback:large-data-release");
  callout_seen++;
  vx_observe("cb large-data-release in %s (body of w%d)", my_id >= 0 ? T[my_id].name : "main", (int)((int *)app_ptr - large_tag));
  reenter(session);
  cb_leave();
}
/* observe persist tracking call-outs (coap_persist_track_funcs) */
static int
observe_added_cb(coap_session_t *session, coap_subscription_t *key, coap_proto_t proto, coap_address_t *listen, coap_addr_tuple_t *tuple,
                 coap_bin_const_t *raw, coap_bin_const_t *oscore, void *ud) {
  (void)key;
  (void)proto;
  (void)listen;
  (void)tuple;
  (void)raw;
  (void)oscore;
  (void)ud;
  cb_enter("observe-added");
  sched_point("in-callback:observe-added");
  callout_seen++;
  vx_observe("cb observe-added in %s", my_id >= 0 ? T[my_id].name : "main");
  reenter(session);
  cb_leave();
  return 1;
}
static int
observe_deleted_cb(coap_session_t *session, coap_subscription_t *key, void *ud) {
  (void)key;
  (void)ud;
  cb_enter("observe-deleted");
  sched_point("in-callback:observe-deleted");
  callout_seen++;
  vx_observe("cb observe-deleted in %s", my_id >= 0 ? T[my_id].name : "main");
  reenter(session);
  cb_leave();
  return 1;
}
static int
track_observe_cb(coap_context_t *c, coap_str_const_t *name, uint32_t num, void *ud) {
  (void)c;
  (void)name;
  (void)num;
  (void)ud;
  cb_enter("track-observe-value");
  sched_point("in-callback:track-observe-value");
  callout_seen++;
  vx_observe("cb track-observe-value in %s", my_id >= 0 ? T[my_id].name : "main");
  reenter(cs);
  cb_leave();
  return 1;
}
static int
resource_deleted_cb(coap_context_t *c, coap_str_const_t *name, void *ud) {
  (void)c;
  (void)name;
  (void)ud;
  cb_enter("resource-deleted");
  sched_point("in-callback:resource-deleted");
  callout_seen++;
  vx_observe("cb resource-deleted in %s", my_id >= 0 ? T[my_id].name : "main");
  reenter(cs);
  cb_leave();
  return 1;
}

/* raw UDP peer (an address without libcoap socket): answers the keep-alive ping (empty CON) with RST, ignores the rest */
static void
raw_rx(const ns_dgram_t *d) {
  struct w_msg m;
  if (ns_addr_host(&d->dst) != RAW_HOST || !w_parse(d->data, d->len, &m))
    return;
  if (m.type == 0 && m.code == 0 && m.tkl == 0 && d->len == 4) {
    uint8_t rst[4] = {0x70, 0x00, (uint8_t)(m.mid >> 8), (uint8_t)m.mid};
    ns_inject(&d->dst, &d->src, rst, 4);
    raw_rst_sent++;
    vx_observe("raw peer: empty CON (ping) received -> RST");
  }
}
/* raw CoAP-over-TCP peer, zero latency: sees every frame the libcoap side writes and appends its answer to what that
 * side will read: 7.01 CSM -> 7.01 CSM, 7.02 Ping -> 7.03 Pong; everything else is swallowed */
static void
raw_tcp_filter(ns_stream_t *s, int from_side, uint8_t *data, size_t *len, size_t cap) {
  (void)cap;
  if (from_side != 0 || ns_addr_host(&s->addr[1]) != RAWTCP_HOST)
    return;
  size_t p = 0;
  while (p + 2 <= *len) {
    unsigned l = data[p] >> 4, tkl = data[p] & 15, ext = l == 13 ? 1 : l == 14 ? 2 : l == 15 ? 4 : 0;
    if (p + 1 + ext + 1 > *len)
      break;
    size_t body = l;
    if (l == 13)
      body = 13u + data[p + 1];
    else if (l == 14)
      body = 269u + ((unsigned)data[p + 1] << 8 | data[p + 2]);
    else if (l == 15)
      break;
    uint8_t code = data[p + 1 + ext];
    if (code == 0xE1) {
      static const uint8_t csm[2] = {0x00, 0xE1};
      ns_stream_raw_write(s, 1, csm, 2);
    } else if (code == 0xE2 && tkl <= 8 && p + 2 + ext + tkl <= *len) {
      uint8_t pong[2 + 8] = {(uint8_t)tkl, 0xE3};
      memcpy(pong + 2, data + p + 2 + ext, tkl);
      ns_stream_raw_write(s, 1, pong, 2 + tkl);
      raw_pong_sent++;
      vx_observe("raw tcp peer: 7.02 Ping received -> 7.03 Pong");
    }
    p += 1 + ext + 1 + tkl + body;
  }
}
static NOINSTR int
stream_readable(void) {
  for (int i = 0; i < ns_stream_count(); i++) {
    struct ns_stream_side *sd = &ns_stream_get(i)->side[0];
    if (sd->sock && !sd->closed && sd->rx_avail > 0)
      return 1;
  }
  return 0;
}

static void
do_send(coap_session_t *s, int con, const char *path, const char *query, uint8_t tok) {
  coap_pdu_t *p = coap_new_pdu(con ? COAP_MESSAGE_CON : COAP_MESSAGE_NON, COAP_REQUEST_CODE_GET, s);
  if (!p)
    return;
  coap_add_token(p, 1, &tok);
  coap_add_option(p, COAP_OPTION_URI_PATH, strlen(path), (const uint8_t *)path);
  if (query)
    coap_add_option(p, COAP_OPTION_URI_QUERY, strlen(query), (const uint8_t *)query);
  if (coap_send(s, p) != COAP_INVALID_MID && s == cs)
    req_sent++;
}

static void
do_op(int op, int w) {
  vx_observe("op %s by w%d (lock owner now: %s)", op_names[op], w, lock_owner < 0 ? "none" : T[lock_owner].name);
  switch (op) {
  case OP_SEND:
    do_send(cs, 1, "r", NULL, (uint8_t)(0x10 + w));
    break;
  case OP_NOTIFY:
    coap_resource_notify_observers(res_r, NULL);
    break;
  case OP_SESSION: {
    coap_address_t a;
    ns_addr(&a, 30 + w, 5683);
    coap_session_t *s = coap_new_client_session(ctx, NULL, &a, COAP_PROTO_UDP);
    if (s) {
      coap_session_set_app_data(s, &a);
      coap_session_release(s);
    }
    break;
  }
  case OP_RESOURCE: {
    char nm[8];
    snprintf(nm, sizeof nm, "t%d", w);
    coap_resource_t *r = coap_resource_init(coap_make_str_const(nm), COAP_RESOURCE_FLAGS_RELEASE_URI * 0);
    if (r) {
      coap_register_request_handler(r, COAP_REQUEST_GET, hnd_get);
      coap_add_resource(ctx, r);
      /* the context argument is documented as ignored; the man page and the examples pass NULL */
      coap_delete_resource(w & 1 ? NULL : ctx, r);
    }
    break;
  }
  case OP_CACHE: {
    coap_pdu_t *p = coap_new_pdu(COAP_MESSAGE_CON, COAP_REQUEST_CODE_GET, cs);
    if (p) {
      uint8_t v = (uint8_t)w;
      coap_add_option(p, COAP_OPTION_URI_PATH, 1, &v);
      coap_cache_entry_t *e = coap_new_cache_entry(cs, p, COAP_CACHE_NOT_RECORD_PDU, COAP_CACHE_IS_SESSION_BASED, 0);
      (void)coap_cache_get_by_pdu(cs, p, COAP_CACHE_IS_SESSION_BASED);
      (void)e;
      coap_delete_pdu(p);
    }
    break;
  }
  case OP_REF:
    coap_session_reference(cs);
    (void)coap_session_get_state(cs);
    coap_session_release(cs);
    break;
  case OP_SEND_DEAD:
    do_send(dead, 1, "x", NULL, (uint8_t)(0x20 + w));
    break;
  case OP_ASYNC_TRIGGER:
    do_send(cs, 1, "q", "a", (uint8_t)(0x30 + w));
    break;
  case OP_MANY_IN: {
    /* the network brings an empty CON (CoAP ping) for each of the NMANY sockets at once */
    for (int i = 0; i < NMANY; i++)
      if (many[i]) {
        uint8_t ping[4] = {0x40, 0x00, 0x60, (uint8_t)i};
        ns_inject(&rawpeer, &many_local[i], ping, 4);
      }
    break;
  }
  case OP_NEWCTX_FAIL: {
    /* an API call that fails half way (the listen address is in use): it must leave the global lock free */
    coap_address_t la;
    ns_addr(&la, 1, 5683);
    ns_bind_fail_next = 1;
    coap_context_t *c2 = coap_new_context(&la);
    ns_bind_fail_next = 0;
    if (c2)
      coap_free_context(c2);
    break;
  }
  case OP_NEWPEER: {
    /* a request from a new local address: the I/O thread will raise SERVER_SESSION_NEW (an event callback that runs with
     * the global lock held) while the API threads are still active */
    coap_address_t la;
    ns_addr(&la, 40 + w, 7000 + w);
    coap_session_t *s = coap_new_client_session(ctx, &la, &srv, COAP_PROTO_UDP);
    if (s) {
      do_send(s, 0, "r", NULL, (uint8_t)(0x40 + w));
      extra_sess[w] = s;
    }
    break;
  }
  case OP_SLEEP:
    /* the calling application thread sleeps: wall-clock time passes for every thread (keep-alive and cache idle timers of the
     * I/O thread become due while the API threads are alive); returning from the blocking call is a free scheduling point */
    ns_advance(SLEEP_MS);
    real_lock(&smu);
    schedule("sleep-returns", 2);
    real_unlock(&smu);
    break;
  case OP_RAW_PING: {
    /* the network brings CoAP pings from the raw peers: an empty CON to the server endpoint (new server session), an empty
     * CON to the socket of the client session, and a 7.02 Ping on the TCP connection */
    uint8_t ping[4] = {0x40, 0x00, 0x51, (uint8_t)w};
    ns_inject(&rawpeer, &srv, ping, 4);
    ping[2] = 0x52;
    ns_inject(&rawpeer, coap_session_get_addr_local(rawc), ping, 4);
    if (tcp_stream) {
      static const uint8_t sping[2] = {0x00, 0xE2};
      ns_stream_raw_write(tcp_stream, 1, sping, 2);
    }
    break;
  }
  case OP_SEND_PING:
    /* application-initiated ping (not the keep-alive): over UDP the RST comes back as a NACK callback, over TCP as a pong callback */
    (void)coap_session_send_ping(cs);
    if (tcps)
      (void)coap_session_send_ping(tcps);
    break;
  case OP_CACHE_APP: {
    coap_pdu_t *p = coap_new_pdu(COAP_MESSAGE_CON, COAP_REQUEST_CODE_GET, cs);
    if (p) {
      uint8_t v = (uint8_t)(0x80 + w);
      coap_add_option(p, COAP_OPTION_URI_PATH, 1, &v);
      /* idle timeout 1 s: the I/O thread expires the entry (=> app-data free call-out) once an API thread has slept */
      coap_cache_entry_t *e = coap_new_cache_entry(cs, p, COAP_CACHE_NOT_RECORD_PDU, COAP_CACHE_IS_SESSION_BASED, 1);
      if (e)
        coap_cache_set_app_data(e, &cache_tag[w], cache_free_cb);
      coap_delete_pdu(p);
    }
    break;
  }
  case OP_RESOURCE_UD: {
    char nm[8];
    snprintf(nm, sizeof nm, "u%d", w);
    coap_resource_t *r = coap_resource_init(coap_make_str_const(nm), 0);
    if (r) {
      coap_resource_set_userdata(r, &res_tag[w]);
      coap_register_request_handler(r, COAP_REQUEST_GET, hnd_get);
      coap_add_resource(ctx, r);
      coap_delete_resource(ctx, r); /* => resource-deleted (persist) and release-userdata call-outs in this thread */
    }
    break;
  }
  case OP_SEND_LARGE: {
    coap_pdu_t *p = coap_new_pdu(COAP_MESSAGE_CON, COAP_REQUEST_CODE_GET, cs);
    if (p) {
      uint8_t tok = (uint8_t)(0x60 + w);
      coap_add_token(p, 1, &tok);
      coap_add_option(p, COAP_OPTION_URI_PATH, 1, (const uint8_t *)"r");
      /* => large-data release call-out in this thread, inside the API call */
      (void)coap_add_data_large_request(cs, p, 4, (const uint8_t *)"body", large_release_cb, &large_tag[w]);
      if (coap_send(cs, p) != COAP_INVALID_MID)
        req_sent++;
    }
    break;
  }
  case OP_OBSERVE:
  case OP_DEREGISTER: {
    /* observe: new observation on q (=> observe-added + track-observe-value call-outs in the I/O thread);
     * deregister: GET Observe=1 with the token of the observation set up on r (=> observe-deleted call-out) */
    coap_pdu_t *p = coap_new_pdu(COAP_MESSAGE_CON, COAP_REQUEST_CODE_GET, cs);
    if (p) {
      uint8_t tok = op == OP_OBSERVE ? (uint8_t)(0x50 + w) : 0x01, one = 1;
      coap_add_token(p, 1, &tok);
      coap_add_option(p, COAP_OPTION_OBSERVE, op == OP_OBSERVE ? 0 : 1, &one);
      coap_add_option(p, COAP_OPTION_URI_PATH, 1, (const uint8_t *)(op == OP_OBSERVE ? "q" : "r"));
      if (coap_send(cs, p) != COAP_INVALID_MID)
        req_sent++;
    }
    break;
  }
  }
}

static NOINSTR int
async_ready(void) {
  return pend_async != NULL || workers_done_io;
}

/* readiness: EPOLLIN for every libcoap stream socket with unread bytes (level triggered), then netsim's datagram event */
static int
io_fill(struct epoll_event *ev, int max) {
  int n = 0;
  for (int i = 0; i < ns_stream_count() && n < max - 1; i++) {
    ns_stream_t *st = ns_stream_get(i);
    if (!st->side[1].sock)
      (void)ns_stream_raw_read(st, 1, NULL, (size_t)-1); /* the raw peer has consumed what was written to it (see raw_tcp_filter) */
    struct ns_stream_side *sd = &st->side[0];
    if (sd->sock && !sd->closed && sd->rx_avail > 0) {
      ev[n].events = EPOLLIN;
      ev[n].data.ptr = sd->sock;
      n++;
    }
  }
  return n + ns_epoll_fill(ev + n, max - n);
}

static int
epoll_hook(int epfd, struct epoll_event *ev, int max, int timeout) {
  (void)epfd;
  if (timeout == 0)
    return io_fill(ev, max); /* the non-blocking refresh call */
  if (sched_on && my_id >= 0 && lock_owner == my_id) {
    /* the anchor mechanism "unlock around select/epoll_wait": blocking while holding the lock starves every other thread */
    char sig[120];
    snprintf(sig, sizeof sig, "wait-holding-lock:epoll_wait:last-callback:%s", last_callback);
    vx_fail(sig, "thread %s blocks in epoll_wait() while still owning the global lock (last application callback run: %s)", T[my_id].name,
            last_callback);
    vx_exit_now();
  }
  if (sched_on && my_id >= 0) {
    real_lock(&smu);
    io_deadline = ns_now() + (timeout > 0 ? (uint64_t)timeout : 1000000u);
    if (ns_inflight_count() == 0 && !stream_readable()) {
      /* blocking wait made visible: not runnable until a datagram / stream bytes arrive, virtual time reaches the timeout,
       * or nothing else can run (timeout) */
      T[my_id].state = T_WAITIO;
      schedule("epoll_wait(blocked)", 0);
      T[my_id].state = T_RUN;
    } else
      schedule("epoll_wait", 1);
    real_unlock(&smu);
  }
  int n = io_fill(ev, max);
  if (n == 0) {
    io_idle++;
    if (workers_done >= C->nworkers && timeout > 0) {
      /* nothing else can happen: let virtual time pass so that retransmission / give-up paths (NACK callback) run */
      uint64_t adv = (uint64_t)(timeout > 4000 ? 4000 : timeout);
      if (C->flags & F_CBX) {
        /* keep-alive is on in this family: what is due when the API threads have finished is still served, but the clock then stops
         * short of the next period (otherwise the I/O thread would ping on, alone, until its iteration horizon) */
        if (adv > POST_ADVANCE_MS - post_advanced)
          adv = POST_ADVANCE_MS - post_advanced;
        post_advanced += adv;
      }
      ns_advance(adv);
    }
  } else
    io_idle = 0;
  return n;
}

static void
thread_exit_hook(void) {
  real_lock(&smu);
  T[my_id].state = T_DONE;
  schedule("exit", 0);
  real_unlock(&smu);
}

static void
setup(void) {
  ns_addr(&srv, 1, 5683);
  ns_addr(&deadpeer, 9, 5683);
  ns_addr(&rawpeer, RAW_HOST, 5683);
  ns_addr(&rawtcp, RAWTCP_HOST, 5683);
  ctx = coap_new_context(NULL);
  ns_register_ctx(ctx);
  coap_register_response_handler(ctx, resp_handler);
  coap_register_nack_handler(ctx, nack_handler);
  coap_register_event_handler(ctx, event_handler);
  if (C->flags & F_CBX) {
    coap_register_ping_handler(ctx, ping_handler);
    coap_register_pong_handler(ctx, pong_handler);
    coap_resource_release_userdata_handler(ctx, release_userdata_cb);
    coap_context_set_keepalive(ctx, KEEPALIVE_S);
    ns_raw_rx = raw_rx;
    ns_stream_filter = raw_tcp_filter;
  }
  coap_new_endpoint(ctx, &srv, COAP_PROTO_UDP);
  res_r = coap_resource_init(coap_make_str_const("r"), 0);
  coap_register_request_handler(res_r, COAP_REQUEST_GET, hnd_get);
  coap_resource_set_get_observable(res_r, 1);
  coap_add_resource(ctx, res_r);
  res_q = coap_resource_init(coap_make_str_const("q"), 0);
  coap_register_request_handler(res_q, COAP_REQUEST_GET, hnd_get);
  coap_resource_set_get_observable(res_q, 1);
  coap_add_resource(ctx, res_q);
  cs = coap_new_client_session(ctx, NULL, &srv, COAP_PROTO_UDP);
  memset(many, 0, sizeof many);
  if (C->flags & F_MANY)
    for (int i = 0; i < NMANY; i++) {
      ns_addr(&many_local[i], 80 + i, 43000 + i);
      many[i] = coap_new_client_session(ctx, &many_local[i], &rawpeer, COAP_PROTO_UDP);
    }
  if (C->flags & F_CBX) {
    /* (no session to a silent peer here: with keep-alive on it would be pinged, given up and closed - the give-up path belongs
     * to the "c13:" family) */
    rawc = coap_new_client_session(ctx, NULL, &rawpeer, COAP_PROTO_UDP);
    if (C->flags & F_TCP) {
      tcps = coap_new_client_session(ctx, NULL, &rawtcp, COAP_PROTO_TCP); /* CSM goes out, the raw peer's CSM is read below */
      tcp_stream = ns_stream_count() ? ns_stream_get(ns_stream_count() - 1) : NULL;
    }
  } else {
    dead = coap_new_client_session(ctx, NULL, &deadpeer, COAP_PROTO_UDP);
    coap_session_set_max_retransmit(dead, 1);
    coap_session_set_ack_timeout(dead, (coap_fixed_point_t){1, 0});
  }
  /* register an observation on r so that notify has something to do */
  coap_pdu_t *p = coap_new_pdu(COAP_MESSAGE_CON, COAP_REQUEST_CODE_GET, cs);
  uint8_t t = 0x01;
  coap_add_token(p, 1, &t);
  uint8_t z = 0;
  coap_add_option(p, COAP_OPTION_OBSERVE, 0, &z);
  coap_add_option(p, COAP_OPTION_URI_PATH, 1, (const uint8_t *)"r");
  if (coap_send(cs, p) != COAP_INVALID_MID)
    req_sent++;
  for (int i = 0; i < 6; i++)
    coap_io_process(ctx, 100);
  if (C->flags & F_PERSIST) /* after the set-up observation: these call-outs are to happen while the API threads are alive */
    coap_persist_track_funcs(ctx, observe_added_cb, observe_deleted_cb, track_observe_cb, NULL, resource_deleted_cb, 1, NULL);
  if ((C->flags & F_TCP) && (!tcps || coap_session_get_state(tcps) != COAP_SESSION_STATE_ESTABLISHED)) {
    vx_fail("harness:tcp-session-not-established", "set-up: TCP client session to the raw peer is not established (state %d)",
            tcps ? (int)coap_session_get_state(tcps) : -1);
    vx_exit_now();
  }
}

static void *
io_thread(void *arg) {
  (void)arg;
  my_id = 0;
  rc_thread_stack(0);
  real_lock(&smu);
  while (cur != my_id)
    pthread_cond_wait(&scv, &smu);
  real_unlock(&smu);
  setup();
  real_lock(&smu);
  setup_done = 1;
  for (int t = 1; t < nthreads; t++)
    T[t].state = T_RUN;
  armed = 1;
  rc_arm();
  real_unlock(&smu);
  int iter = 0;
  while (iter++ < 80) {
    if (workers_done >= C->nworkers && ns_inflight_count() == 0 && io_idle >= 2 && !coap_io_pending(ctx))
      break;
    if (workers_done >= C->nworkers && io_idle >= 12)
      break;
    if (io_idle >= 20)
      break;
    if (pend_async && workers_done >= C->nworkers) {
      coap_async_trigger(pend_async);
      pend_async = NULL;
    }
    coap_io_process(ctx, 1000);
  }
  workers_done_io = 1;
  thread_exit_hook();
  return NULL;
}
static void *
worker_thread(void *arg) {
  int w = (int)(intptr_t)arg;
  my_id = w;
  rc_thread_stack(w);
  real_lock(&smu);
  while (cur != my_id)
    pthread_cond_wait(&scv, &smu);
  real_unlock(&smu);
  for (int k = 0; k < 2; k++)
    if (C->ops[w - 1][k] >= 0) {
      do_op(C->ops[w - 1][k], w);
      sched_point("between-ops");
    }
  if (C->ops[w - 1][0] == OP_ASYNC_TRIGGER || C->ops[w - 1][1] == OP_ASYNC_TRIGGER) {
    /* block (visible to the scheduler) until the request handler registered the async entry, then trigger it */
    real_lock(&smu);
    while (!async_ready()) {
      T[my_id].state = T_WAITASYNC;
      schedule("wait-async", 0);
    }
    T[my_id].state = T_RUN;
    real_unlock(&smu);
    if (pend_async) {
      coap_async_t *a = pend_async;
      pend_async = NULL;
      coap_async_trigger(a);
    }
  }
  real_lock(&smu);
  workers_done++;
  real_unlock(&smu);
  thread_exit_hook();
  return NULL;
}

static void
run(void *arg) {
  C = arg;
  resolve();
  rc_exec_init();
  ns_init();
  ns_epoll_wait_hook = epoll_hook;
  workers_done = setup_done = workers_done_io = 0;
  req_sent = resp_seen = nack_seen = ev_seen = handler_calls = reentry_sends = 0;
  pend_async = NULL;
  io_idle = 0;
  io_deadline = 0;
  post_advanced = 0;
  tearing_down = 0;
  ping_seen = pong_seen = callout_seen = nested_seen = nest_depth = reentry_returns = raw_rst_sent = raw_pong_sent = 0;
  dead = rawc = tcps = NULL;
  tcp_stream = NULL;
  preemptions = 0;
  violations_reported = 0;
  armed = 0;
  lock_owner = -1;
  nthreads = 1 + C->nworkers;
  memset(T, 0, sizeof T);
  T[0].name = "io";
  T[0].state = T_RUN;
  static const char *wn[] = {"w1", "w2", "w3"};
  for (int t = 1; t < nthreads; t++) {
    T[t].name = wn[t - 1];
    T[t].state = T_NEW;
  }
  sched_on = 1;
  cur = 0;
  pthread_create(&T[0].th, NULL, io_thread, NULL);
  for (int t = 1; t < nthreads; t++)
    pthread_create(&T[t].th, NULL, worker_thread, (void *)(intptr_t)t);
  for (int t = 0; t < nthreads; t++)
    pthread_join(T[t].th, NULL);
  sched_on = 0;
  armed = 0;
#ifdef C13_RACE
  rc_on = 0;
  vx_trace("race detector: %llu library accesses (%llu bytes) checked on %u shadow pages", rc_accesses, rc_bytes, rc_pages);
  if (rc_accesses == 0)
    vx_fail("harness:race-detector-saw-nothing", "no instrumented access was seen: the library objects are not compiled with the access hooks");
#endif
  vx_observe("end: requests=%d responses=%d nacks=%d events=%d handler_calls=%d preemptions=%d", req_sent, resp_seen, nack_seen, ev_seen,
             handler_calls, preemptions);
  if (C->flags & F_CBX)
    vx_observe("end: pings=%d pongs=%d other-call-outs=%d re-entries-returned=%d raw-rst=%d raw-pong=%d", ping_seen, pong_seen, callout_seen,
               reentry_returns, raw_rst_sent, raw_pong_sent);
  if (lock_owner != -1) {
    char sig[100];
    snprintf(sig, sizeof sig, "lock-leak:held-at-end:after-callback:%s", last_callback);
    vx_fail(sig, "global lock still owned by %s after all threads finished", T[lock_owner].name);
    vx_exit_now();
  }
#if COAP_THREAD_SAFE
  if (global_lock.in_callback != 0 || global_lock.lock_count != 0) {
    char sig[100];
    snprintf(sig, sizeof sig, "lock-leak:counters:after-callback:%s", last_callback);
    vx_fail(sig, "in_callback=%u lock_count=%u after all threads finished", global_lock.in_callback, global_lock.lock_count);
    vx_exit_now();
  }
#endif
  /* (requests answered is reported in the outcome histogram; it is not a verdict: the I/O thread's loop has a fixed horizon) */
  if (C->flags & F_NEST)
    vx_outcome("req=%d resp=%d nack=%d ping=%d pong=%d callouts=%d nested=%d", req_sent, resp_seen, nack_seen, ping_seen, pong_seen, callout_seen,
               nested_seen);
  else if (C->flags & F_CBX)
    vx_outcome("req=%d resp=%d nack=%d ping=%d pong=%d callouts=%d", req_sent, resp_seen, nack_seen, ping_seen, pong_seen, callout_seen);
  else
    vx_outcome("req=%d resp=%d nack=%d", req_sent, resp_seen, nack_seen);
  tearing_down = 1; /* the callbacks that run from here on (session / context release) must not touch the objects being released */
  coap_session_release(cs);
  if (dead)
    coap_session_release(dead);
  if (rawc)
    coap_session_release(rawc);
  for (int i = 0; i < NMANY; i++)
    if (many[i]) {
      coap_session_release(many[i]);
      many[i] = NULL;
    }
  if (tcps)
    coap_session_release(tcps);
  for (int w = 0; w < MAXT; w++)
    if (extra_sess[w]) {
      coap_session_release(extra_sess[w]);
      extra_sess[w] = NULL;
    }
  ns_unregister_ctx(ctx);
  coap_free_context(ctx);
  ns_fini();
}

static struct cfg *cfgs;
static int ncfgs;
static int add_flags; /* flags given to the scenarios added next */
static void
add(int nw, int a0, int a1, int b0, int b1, int c0, int c1, int bound) {
  struct cfg c;
  memset(&c, 0, sizeof c);
  c.nworkers = nw;
  c.ops[0][0] = a0;
  c.ops[0][1] = a1;
  c.ops[1][0] = b0;
  c.ops[1][1] = b1;
  c.ops[2][0] = c0;
  c.ops[2][1] = c1;
  c.bound = bound;
  c.flags = add_flags;
  char d[3][40];
  for (int w = 0; w < 3; w++)
    snprintf(d[w], sizeof d[w], "%s%s%s", c.ops[w][0] >= 0 ? op_names[c.ops[w][0]] : "-", c.ops[w][1] >= 0 ? "+" : "",
             c.ops[w][1] >= 0 ? op_names[c.ops[w][1]] : "");
  if (add_flags)
    snprintf(c.name, sizeof c.name, "c13x" C13_BUILD ":%s%s%s:w=%d:%s|%s|%s:B=%d", add_flags & F_TCP ? "udp+tcp" : "udp", add_flags & F_PERSIST ? "+persist" : "",
             add_flags & F_NEST ? (add_flags & F_MANY ? "+nest+many" : "+nest") : add_flags & F_MANY ? "+many" : "", nw,
             d[0], d[1], nw > 2 ? d[2] : "-", bound);
  else
    snprintf(c.name, sizeof c.name, "c13" C13_BUILD ":w=%d:%s|%s|%s:B=%d", nw, d[0], d[1], nw > 2 ? d[2] : "-", bound);
  cfgs = realloc(cfgs, sizeof *cfgs * (size_t)(ncfgs + 1));
  cfgs[ncfgs++] = c;
}

static int
quick_b2(int a, int b) {
  static const int pairs[][2] = {{OP_SEND, OP_SEND}, {OP_SEND, OP_NOTIFY}, {OP_NOTIFY, OP_RESOURCE}, {OP_SESSION, OP_SEND_DEAD},
                                 {OP_SEND, OP_ASYNC_TRIGGER}, {OP_CACHE, OP_REF}};
  for (unsigned i = 0; i < sizeof pairs / sizeof pairs[0]; i++)
    if (pairs[i][0] == a && pairs[i][1] == b)
      return 1;
  return 0;
}

int
main(int argc, char **argv) {
  vx_main_init(argc, argv, "C13");
  int T_ = vx_is_thorough();
  load_symbols();
  rc_global_init();
  vx_ev_int("lkd_functions_monitored", nsyms);
  vx_ev_int("threadsafe_is_supported", coap_threadsafe_is_supported());
#if COAP_THREAD_SAFE
  vx_ev_int("locking_compiled_in", 1);
#else
  vx_ev_int("locking_compiled_in", 0);
#endif
#ifdef C13_RACE
  vx_ev_str("race_detector" C13_BUILD, "this stage: library objects compiled with -fsanitize=thread (compile only) and -Dmemcpy/-Dmemmove/-Dmemset/-Dmemcmp=rc_*; "
            "happens-before detector of the harness (vector clocks per thread and per mutex in the executable's data segment, one shadow cell "
            "per byte, own stack skipped, free/realloc forget the block) checks every load, store and mem* call of library code on every "
            "explored schedule while >= 2 threads are alive; a run that sees no instrumented access fails");
  vx_ev_int("race_detector_symbols", rc_nsyms);
#endif
  if (!coap_threadsafe_is_supported()) {
    vx_ev_str("vacuous", "coap_threadsafe_is_supported() reports 0 in this configuration: nothing is advertised");
  }
  /* two workers, one op each: all unordered pairs over the menu */
  for (int a = 0; a < OP_NOPS; a++)
    for (int b = a; b < OP_NOPS; b++)
      add(2, a, -1, b, -1, -1, -1, T_ && quick_b2(a, b) ? 3 : 2);
  /* two ops per worker */
  add(2, OP_SEND, OP_NOTIFY, OP_SESSION, OP_SEND, -1, -1, T_ ? 2 : 1);
  add(2, OP_NOTIFY, OP_RESOURCE, OP_SEND_DEAD, OP_REF, -1, -1, T_ ? 2 : 1);
  add(2, OP_ASYNC_TRIGGER, OP_SEND, OP_CACHE, OP_NOTIFY, -1, -1, T_ ? 2 : 1);
  add(2, OP_NEWPEER, OP_SEND, OP_NOTIFY, OP_REF, -1, -1, T_ ? 2 : 1);
  /* three workers */
  add(3, OP_NEWPEER, -1, OP_SEND, -1, OP_REF, -1, T_ ? 2 : 1);
  add(3, OP_SEND, -1, OP_NOTIFY, -1, OP_SESSION, -1, T_ ? 2 : 1);
  add(3, OP_SEND, -1, OP_SEND, -1, OP_SEND_DEAD, -1, T_ ? 2 : 1);
  if (T_) {
    add(3, OP_RESOURCE, -1, OP_CACHE, -1, OP_ASYNC_TRIGGER, -1, 2);
    add(3, OP_NOTIFY, OP_SEND, OP_REF, -1, OP_SEND, -1, 2);
  }
  /* an API call that fails half way must not keep the global lock */
  add(2, OP_NEWCTX_FAIL, OP_REF, OP_SEND, -1, -1, -1, T_ ? 2 : 1);
  /* "c13x:" family: the other call-outs, with their own preemption bound */
  int BX = T_ ? 2 : 1;
  add_flags = F_CBX;
  add(2, OP_SLEEP, OP_REF, OP_SEND, -1, -1, -1, BX);      /* keep-alive: ping (server side) + pong (own endpoint, raw peer) */
  add(2, OP_RAW_PING, -1, OP_SEND, -1, -1, -1, BX);       /* pings from the raw peer to server endpoint and client socket */
  add(2, OP_SEND_PING, -1, OP_SEND, -1, -1, -1, BX);      /* application ping: ping handler, RST => NACK callback */
  add(2, OP_CACHE_APP, OP_SLEEP, OP_REF, -1, -1, -1, BX); /* cache entry idles out in the I/O thread */
  add(2, OP_RESOURCE_UD, -1, OP_NOTIFY, -1, -1, -1, 2);   /* user-data release in the API thread (two preemptions also in quick: an unlock
                                                           * of one thread racing with the other thread's lock-held call-out needs both) */
  add(2, OP_SEND_LARGE, -1, OP_SEND, -1, -1, -1, BX);     /* large-data release in the API thread */
  if (T_) {
    add(2, OP_SLEEP, OP_SEND, OP_NOTIFY, -1, -1, -1, BX);
    add(2, OP_RAW_PING, OP_SLEEP, OP_REF, -1, -1, -1, BX);
    add(2, OP_CACHE_APP, OP_SLEEP, OP_SEND, -1, -1, -1, BX); /* (no second cache-app / sleep in the other thread: see assumption) */
    add(2, OP_RESOURCE_UD, -1, OP_RESOURCE_UD, -1, -1, -1, BX);
    add(2, OP_SEND_LARGE, OP_SLEEP, OP_RESOURCE_UD, -1, -1, -1, BX);
    add(3, OP_SLEEP, -1, OP_SEND, -1, OP_RAW_PING, -1, 1);
  }
  add_flags = F_CBX | F_TCP;
  add(2, OP_SLEEP, OP_REF, OP_SEND, -1, -1, -1, BX);            /* + 7.02 keep-alive => 7.03 => pong handler */
  add(2, OP_RAW_PING, -1, OP_REF, -1, -1, -1, BX);              /* + 7.02 from the peer => ping handler */
  add(2, OP_SEND_PING, -1, OP_SEND, -1, -1, -1, BX);
  add_flags = F_CBX | F_PERSIST;
  add(2, OP_OBSERVE, -1, OP_REF, -1, -1, -1, BX);               /* observe-added */
  add(2, OP_NOTIFY, -1, OP_REF, -1, -1, -1, BX);                /* track-observe-value */
  add(2, OP_DEREGISTER, -1, OP_REF, -1, -1, -1, BX);            /* observe-deleted */
  add(2, OP_RESOURCE_UD, -1, OP_REF, -1, -1, -1, BX);           /* resource-deleted */
  /* a call-out nested inside a NACK / event / ping / pong callback, after which the outer callback uses the API again */
  add_flags = F_CBX | F_NEST;
  add(2, OP_SEND_PING, -1, OP_SEND, -1, -1, -1, BX);  /* ping handler, RST => NACK callback */
  add(2, OP_SLEEP, OP_REF, OP_NOTIFY, -1, -1, -1, BX); /* keep-alive: ping + pong handlers in the I/O thread */
  add(2, OP_NEWPEER, -1, OP_NOTIFY, -1, -1, -1, BX);   /* SERVER_SESSION_NEW event in the I/O thread */
  add_flags = F_CBX | F_TCP | F_NEST;
  add(2, OP_SLEEP, OP_REF, OP_SEND, -1, -1, -1, BX);   /* + TCP events and 7.03 */
  /* more sockets ready at once than one epoll_wait of the library takes: its I/O loop goes round a second time */
  add_flags = F_MANY;
  add(2, OP_MANY_IN, -1, OP_SEND, -1, -1, -1, BX);
  add(2, OP_MANY_IN, OP_REF, OP_NOTIFY, -1, -1, -1, BX);
  add_flags = 0;
  int nx = 0;
  for (int i = 0; i < ncfgs; i++)
    nx += cfgs[i].flags != 0;
  vx_ev_int("scenarios_api_menu_family", ncfgs - nx);
  vx_ev_int("scenarios_callout_family", nx);
  vx_ev_int("callout_family_bound", BX);
  vx_ev_rule("real pthreads (I/O thread in coap_io_process + 2-3 API threads, 1-2 public API calls each) under a cooperative scheduler with "
             "scheduling points at every operation on libcoap's global lock, inside every application callback, the blocking epoll_wait, thread "
             "start/exit; all schedules with <= bound preemptions (switching away from a thread that returns from a blocking call - lock wait, "
             "epoll_wait, sleep - is free); non-trivial = at least one preemption; distinct = distinct observation logs. "
             "Family c13: (bound 2, 3 for six pairs in thorough; 1-2 for the two-op and three-thread scenarios): menu send / notify / session "
             "create+release / resource add+delete / cache / reference+release / send to a dead peer (give-up => NACK callback) / async trigger / "
             "request from a new local address (=> SERVER_SESSION_NEW event callback, lock held, in the I/O thread); request and response "
             "callbacks re-enter lock-taking public API, NACK and event callbacks call getters. "
             "Family c13x: (own bound: 1 quick, 2 thorough; thorough adds five more op combinations and one scenario with three API threads at "
             "bound 1; keep-alive 2 s on, ping + pong + resource-user-data-release handlers registered, "
             "one more UDP client session to a raw peer that answers an empty CON with RST; every callback incl. NACK and event pins, "
             "reads and unpins the session it is called for = two lock-taking public API calls from inside): menu sleep 2.1 s (virtual time "
             "passes while the API threads are alive: the I/O thread's epoll_wait times out, it sends the keep-alive pings: empty CON to its "
             "own server endpoint => ping handler + RST => pong handler, empty CON to the raw peer => RST => pong handler) / empty CONs from "
             "the raw peer to the server endpoint and to the client session's socket (=> ping handler on a new server session and on a "
             "client session) / coap_session_send_ping by an API thread (=> RST => NACK callback) / cache entry with app data and 1 s idle "
             "timeout (=> app-data free call-out from coap_expire_cache_entries in the I/O thread) / resource with user data add+delete (=> "
             "release call-out in the API thread) / coap_add_data_large_request with a release function (=> call-out in the API thread) / "
             "send / notify / reference+release; udp+tcp scenarios add a CoAP-over-TCP client session to a raw stream peer (CSM "
             "exchanged in set-up): keep-alive and application 7.02 Ping => 7.03 Pong => pong handler, 7.02 from the peer => ping handler; "
             "+persist scenarios register coap_persist_track_funcs call-outs after set-up: new observation (observe-added), notify "
             "(track-observe-value), GET Observe=1 (observe-deleted), resource delete (resource-deleted)");
  vx_ev_assumption("library configuration = coap_config.h/coap_defines.h emitted by the repository's CMake configure step on the current tree; built -DNDEBUG like the shipped RelWithDebInfo build");
  vx_ev_assumption("sequential consistency; scheduling points only at lock operations and I/O waits (unsynchronised accesses are the business of the separate TSan pass)");
  vx_ev_assumption("virtual time moves only when an API thread sleeps (2.1 s at once) and, after all API threads have finished, by the I/O "
                   "thread's own epoll timeouts (c13x: at most 1.5 s in total, so the keep-alive does not fire again once the I/O thread is alone)");
  vx_ev_assumption("call-outs not driven: DTLS/TLS (PSK/PKI/SNI/CN validation) callbacks, lg_xmit release after a multi-block transfer, "
                   "dyn-resource-added (persist), KEEPALIVE_FAILURE event (two unanswered keep-alive periods), WebSocket sessions; a cache entry with idle timeout is "
                   "given its app data by the thread that created it before any thread sleeps (coap_cache_set_app_data is an unlocked "
                   "setter on a pointer the I/O thread may expire: an application-level race the property does not cover)");
  vx_ev_assumption("raw peers have zero latency: the RST / CSM / Pong is in flight as soon as the I/O thread picks up the ping (UDP) resp. as soon as libcoap writes it (TCP)");
  for (int i = 0; i < ncfgs; i++)
    if (vx_replay_if_match(cfgs[i].name, run, &cfgs[i]))
      return 0;
  if (vx_replay_path()) {
    fprintf(stderr, "replay file does not match any scenario\n");
    return 2;
  }
  if (getenv("C13_ONLY")) { /* development aid: explore only the scenarios whose name contains the given text */
    int k = 0;
    for (int i = 0; i < ncfgs; i++)
      if (strstr(cfgs[i].name, getenv("C13_ONLY")))
        cfgs[k++] = cfgs[i];
    ncfgs = k;
    vx_ev_str("scenario_filter", getenv("C13_ONLY"));
  }
  struct vx_config *vcs = calloc((size_t)ncfgs, sizeof *vcs);
  void **args = calloc((size_t)ncfgs, sizeof *args);
  for (int i = 0; i < ncfgs; i++) {
    vcs[i] = (struct vx_config){.scenario = cfgs[i].name, .bound = cfgs[i].bound, .leakcheck = 0, .exec_timeout_s = 30};
    args[i] = &cfgs[i];
  }
  struct vx_scn_stats st;
  vx_explore_multi("c13:all", vcs, args, ncfgs, run, 0, &st);
  vx_ev_int("scenarios", ncfgs);
  return vx_finish();
}
