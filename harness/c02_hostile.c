/* C02 -- arbitrary network input never breaks memory safety, liveness or the endpoint.
 *
 * Three exhaustive families, all in-process under ASan/UBSan with libcoap's asserts live (vxp pins the
 * index of any crashing case):
 *  (A) parser level: every byte string of a bounded length/alphabet after each of 24 header variants through
 *      coap_pdu_parse(), coap_show_pdu() at DEBUG level (the second walk over the PDU) and every accessor;
 *  (B) endpoint level: valid exchanges between a real client and a real server context (request/response,
 *      async, Block1, Block2, observe, TCP, WebSocket) are run up to their k-th message, which is then replaced
 *      by (or preceded by) every single-field mutation of itself; afterwards the exchange continues, timers run
 *      to quiescence and a canary GET on a fresh session must be answered 2.05;
 *  (C) WebSocket close path: a raw client leaves a frame half sent, queues further bytes and the server closes
 *      the session (every split of the declared length).
 */
#include "cs.h"
#include <stdarg.h>

/* ------------------------------------------------------------------------------------------ */
/* (A) parser level                                                                             */
static const uint8_t A20[20] = {0x00, 0x01, 0x0C, 0x0D, 0x0E, 0x0F, 0x10, 0x1F, 0xC0, 0xCD, 0xD0, 0xDD, 0xDE, 0xE0, 0xED, 0xEE, 0xF0, 0xFE, 0xFF, 0x41};
struct hdrv {
  coap_proto_t proto;
  uint8_t b[8];
  size_t n;
};
static struct hdrv HV[32];
static int nhv;
static void
build_hv(void) {
  static const int tkls[] = {0, 1, 8, 9, 13, 14, 15};
  static const uint8_t codes[] = {0x00, 0x01, 0x45};
  for (unsigned t = 0; t < 7; t++)
    for (unsigned c = 0; c < 3; c++) {
      if (nhv >= 21)
        break;
      struct hdrv *h = &HV[nhv++];
      h->proto = COAP_PROTO_UDP;
      h->b[0] = (uint8_t)(0x40 | tkls[t]);
      h->b[1] = codes[c];
      h->b[2] = 0x12;
      h->b[3] = 0x34;
      h->n = 4;
    }
  static const uint8_t lens[] = {0x00, 0xC0, 0xD0, 0xE0, 0xF0};
  for (unsigned l = 0; l < 5; l++) {
    struct hdrv *h = &HV[nhv++];
    h->proto = COAP_PROTO_TCP;
    h->b[0] = lens[l];
    h->n = 1; /* the rest (ext length, code, token ...) is part of the enumerated tail */
  }
  struct hdrv *h = &HV[nhv++];
  h->proto = COAP_PROTO_WS;
  h->b[0] = 0x00;
  h->n = 1;
}

struct aspace {
  char name[40];
  int len;
  int full; /* 1: all 256 values, 0: A20 */
};
static uint64_t
ipow(uint64_t b, int e) {
  uint64_t r = 1;
  while (e--)
    r *= b;
  return r;
}
static void
walk_pdu(coap_pdu_t *p) {
  /* every public accessor + the debug printer */
  (void)coap_pdu_get_type(p);
  (void)coap_pdu_get_code(p);
  (void)coap_pdu_get_mid(p);
  coap_bin_const_t t = coap_pdu_get_token(p);
  volatile uint8_t sink = 0;
  for (size_t i = 0; i < t.length; i++)
    sink ^= t.s[i];
  coap_opt_iterator_t oi;
  coap_opt_t *o;
  coap_option_iterator_init(p, &oi, COAP_OPT_ALL);
  while ((o = coap_option_next(&oi))) {
    uint32_t l = coap_opt_length(o);
    const uint8_t *v = coap_opt_value(o);
    for (uint32_t i = 0; i < l; i++)
      sink ^= v[i];
    (void)coap_opt_size(o);
  }
  size_t len, off, tot;
  const uint8_t *d;
  if (coap_get_data(p, &len, &d))
    for (size_t i = 0; i < len; i++)
      sink ^= d[i];
  (void)coap_get_data_large(p, &len, &d, &off, &tot);
  coap_string_t *up = coap_get_uri_path(p);
  coap_delete_string(up);
  coap_string_t *q = coap_get_query(p);
  coap_delete_string(q);
  coap_block_t blk;
  (void)coap_get_block(p, COAP_OPTION_BLOCK2, &blk);
  (void)coap_get_block(p, COAP_OPTION_BLOCK1, &blk);
  coap_show_pdu(COAP_LOG_DEBUG, p);
  (void)sink;
}
static void
case_parse(uint64_t idx, void *arg) {
  struct aspace *sp = arg;
  uint64_t per = ipow(sp->full ? 256 : 20, sp->len);
  int hv = (int)(idx / per);
  uint64_t x = idx % per;
  const struct hdrv *h = &HV[hv];
  size_t n = h->n + (size_t)sp->len;
  uint8_t *b = malloc(n ? n : 1);
  memcpy(b, h->b, h->n);
  for (int i = 0; i < sp->len; i++) {
    b[h->n + (size_t)i] = sp->full ? (uint8_t)(x & 0xff) : A20[x % 20];
    x /= sp->full ? 256 : 20;
  }
  coap_pdu_t *p = coap_pdu_init(0, 0, 0, n);
  int ok = 0;
  if (p) {
    if (h->proto == COAP_PROTO_UDP)
      ok = coap_pdu_parse(h->proto, b, n, p);
    else {
      /* the way coap_read_session() drives the stream parser for one complete chunk */
      size_t hs = coap_pdu_parse_header_size(h->proto, b);
      if (hs && hs <= n) {
        size_t tkl = b[0] & 0x0f;
        size_t te = tkl == 13 ? 1 : tkl == 14 ? 2 : 0;
        if (hs + te <= n) {
          size_t sz = coap_pdu_parse_size(h->proto, b, hs + te);
          if (hs + te + sz >= hs + te && hs + sz <= n && sz < 100000)
            ok = coap_pdu_parse(h->proto, b, hs + sz, p);
        }
      }
    }
    if (ok)
      walk_pdu(p);
    coap_delete_pdu(p);
  }
  vxp_count(ok ? 1 : 2, 1);
  if (ok)
    vxp_distinct(vx_fnv(b, n, (uint64_t)hv + VX_FNV0));
  if (idx % 3000017 == 11) {
    char hx[40];
    vx_hex(hx, sizeof hx, b, n > 16 ? 16 : n);
    vxp_sample("parser: proto=%d bytes=%s -> %s", h->proto, hx, ok ? "accepted, walked" : "rejected");
  }
  free(b);
}

/* ------------------------------------------------------------------------------------------ */
/* (B) endpoint level                                                                           */
enum { S_GET, S_ASYNC, S_BLOCK1, S_BLOCK2, S_OBSERVE, S_TCP, S_WS, S_N };
static const char *sname[] = {"get", "async", "block1", "block2", "observe", "tcp", "ws"};
static struct cs S;
static int target_k, mut_index, mut_mode; /* mode 0: replace, 1: extra copy before the original */
static int mut_sem;                        /* field-level rewrite of a well-formed message (see apply_sem) */
static int dgrams_seen, stream_writes_seen;
static int mutated, mut_malformed, mut_len;
static int srv_calls_before, sends_before, resp_before;
static char mut_desc[80];
static uint8_t last_orig[64];
static size_t last_orig_len;

/* number of single-field mutations of a message of n bytes */
static int
nmut(size_t n) {
  return (int)(n /* truncations 0..n-1 */ + 4 * n /* byte -> 00, FF, +1, -1 */ + 8 * (n < 24 ? n : 24) /* bit flips in the first 24 bytes */ + 3 /* dup last opt-ish: append FF, append FF 00, append 64 x 'A' */);
}
/* applies mutation m to buf (cap >= n + 64); returns new length */
static size_t
apply_mut(uint8_t *buf, size_t n, int m) {
  if (m < (int)n) {
    snprintf(mut_desc, sizeof mut_desc, "truncate-to-%d", m);
    return (size_t)m;
  }
  m -= (int)n;
  if (m < 4 * (int)n) {
    int pos = m / 4, k = m % 4;
    uint8_t o = buf[pos];
    buf[pos] = k == 0 ? 0x00 : k == 1 ? 0xFF : k == 2 ? (uint8_t)(o + 1) : (uint8_t)(o - 1);
    snprintf(mut_desc, sizeof mut_desc, "byte[%d]:%02x->%02x", pos, o, buf[pos]);
    return n;
  }
  m -= 4 * (int)n;
  int nb = 8 * (int)(n < 24 ? n : 24);
  if (m < nb) {
    buf[m / 8] ^= (uint8_t)(1u << (m % 8));
    snprintf(mut_desc, sizeof mut_desc, "bitflip[%d.%d]", m / 8, m % 8);
    return n;
  }
  m -= nb;
  if (m == 0) {
    buf[n] = 0xFF;
    snprintf(mut_desc, sizeof mut_desc, "append-FF");
    return n + 1;
  }
  if (m == 1) {
    buf[n] = 0xFF;
    buf[n + 1] = 0x00;
    snprintf(mut_desc, sizeof mut_desc, "append-FF00");
    return n + 2;
  }
  memset(buf + n, 'A', 60);
  snprintf(mut_desc, sizeof mut_desc, "append-60xA");
  return n + 60;
}

/* Field-level rewrite: the message stays well-formed, but says something else.  type {kept, CON, NON, ACK, RST} x code
 * {kept, 0.00, 2.05, 2.31, 4.01, 4.08, 4.13, 5.03, 0.01} x token {kept, last byte changed, none, 8 x FF} x {options and
 * payload kept, dropped}: what a confused or malicious peer can answer with a plausible message id. */
static const uint8_t SEM_CODES[] = {0, 0x45, 0x5f, 0x81, 0x88, 0x8d, 0xa3, 0x01};
#define SEM_N (5 * 9 * 4 * 2)
static size_t
apply_sem(uint8_t *buf, size_t n, int m) {
  struct w_msg w;
  if (!w_parse(buf, n, &w))
    return n;
  int ty = m % 5, co = m / 5 % 9, tk = m / 45 % 4, drop = m / 180;
  int type = ty == 0 ? w.type : ty - 1;
  int code = co == 0 ? w.code : SEM_CODES[co - 1];
  uint8_t tok[8];
  int tkl = w.tkl;
  memcpy(tok, w.token, (size_t)w.tkl);
  if (tk == 1) {
    if (tkl)
      tok[tkl - 1] ^= 0x5a;
    else
      tok[0] = 0x5a, tkl = 1;
  } else if (tk == 2)
    tkl = 0;
  else if (tk == 3) {
    memset(tok, 0xff, 8);
    tkl = 8;
  }
  static struct w_buf o;
  w_begin(&o, type, code, w.mid, tok, tkl);
  if (!drop) {
    for (int i = 0; i < w.nopts; i++)
      w_opt_add(&o, w.opts[i].num, w.opts[i].val, w.opts[i].len);
    if (w.payload_len)
      w_payload(&o, w.payload, w.payload_len);
  }
  snprintf(mut_desc, sizeof mut_desc, "rewrite:type=%s,code=%s,token=%s,%s", ty == 0 ? "kept" : ty == 1 ? "CON" : ty == 2 ? "NON" : ty == 3 ? "ACK" : "RST",
           co == 0 ? "kept" : co == 1 ? "0.00" : co == 2 ? "2.05" : co == 3 ? "2.31" : co == 4 ? "4.01" : co == 5 ? "4.08" : co == 6 ? "4.13" : co == 7 ? "5.03" : "0.01",
           tk == 0 ? "kept" : tk == 1 ? "changed" : tk == 2 ? "none" : "8xFF", drop ? "options+payload dropped" : "options+payload kept");
  if (o.n > n + 60)
    return n;
  memcpy(buf, o.b, o.n);
  return o.n;
}

static void
mutate_dgram(ns_dgram_t *d) {
  int k = dgrams_seen++;
  if (k != target_k || mutated)
    return;
  mutated = 1;
  last_orig_len = d->len < sizeof last_orig ? d->len : sizeof last_orig;
  memcpy(last_orig, d->data, last_orig_len);
  if (mut_index >= (mut_sem ? SEM_N : nmut(d->len))) {
    mutated = 2; /* index beyond this message's mutation count: nothing to do */
    return;
  }
  uint8_t *nb = malloc(d->len + 64);
  memcpy(nb, d->data, d->len);
  size_t nl = mut_sem ? apply_sem(nb, d->len, mut_index) : apply_mut(nb, d->len, mut_index);
  struct w_msg m;
  mut_malformed = !w_parse(nb, nl, &m);
  mut_len = (int)nl;
  srv_calls_before = S.srv_calls;
  resp_before = S.resp_total;
  sends_before = ns_total_sent();
  if (mut_mode == 1) {
    /* deliver the mutated copy first, then the original */
    coap_address_t src = d->src, dst = d->dst;
    uint8_t *ex = malloc(nl ? nl : 1);
    memcpy(ex, nb, nl);
    free(nb);
    ns_mutate = NULL;
    ns_inject_now(&src, &dst, ex, nl);
    free(ex);
    /* (ns_mutate stays off: one mutation per case) */
    return;
  }
  free(d->data);
  d->data = malloc(nl ? nl : 1); /* exact size */
  memcpy(d->data, nb, nl);
  d->len = nl;
  free(nb);
}

static void
stream_filter(ns_stream_t *s, int from_side, uint8_t *data, size_t *len, size_t cap) {
  (void)s;
  (void)cap;
  (void)from_side;
  int k = stream_writes_seen++;
  if (k != target_k || mutated)
    return;
  mutated = 1;
  if (mut_index >= nmut(*len)) {
    mutated = 2;
    return;
  }
  *len = apply_mut(data, *len, mut_index);
  mut_malformed = -1; /* stream: malformedness is not judged */
}

static void
failb(int scn, const char *what, const char *fmt, ...) {
  char msg[300], sig[160];
  va_list ap;
  va_start(ap, fmt);
  vsnprintf(msg, sizeof msg, fmt, ap);
  va_end(ap);
  /* class of the mutation, without the concrete position */
  char cls[40];
  snprintf(cls, sizeof cls, "%s", mut_desc);
  char *br = strchr(cls, '[');
  if (br)
    *br = 0;
  char *dash = strstr(cls, "-to-");
  if (dash)
    *dash = 0;
  snprintf(sig, sizeof sig, "%s:%s:msg%d:%s", what, sname[scn], target_k, cls);
  char hx[140];
  vx_hex(hx, sizeof hx, last_orig, last_orig_len);
  vx_fail(sig, "scenario %s, message %d (%s...), mutation %s (%s): %s", sname[scn], target_k, hx, mut_desc, mut_mode ? "extra copy" : "replaced", msg);
}

static void
scenario(int scn) {
  coap_pdu_t *p;
  uint8_t v;
  switch (scn) {
  case S_GET:
    p = cs_request(&S, S.sess, 1, COAP_REQUEST_CODE_GET, "r", 0x11);
    if (p)
      coap_send(S.sess, p);
    cs_pump(&S, 300, 100000);
    break;
  case S_ASYNC:
    p = cs_request(&S, S.sess, 1, COAP_REQUEST_CODE_GET, "async", 0x21);
    if (p)
      coap_send(S.sess, p);
    cs_pump(&S, 300, 100000);
    break;
  case S_BLOCK1: {
    p = cs_request(&S, S.sess, 1, COAP_REQUEST_CODE_PUT, "put", 0x31);
    if (!p)
      break;
    v = 0;
    coap_add_option(p, COAP_OPTION_BLOCK1, 0, &v);
    size_t n = 56;
    uint8_t *b = malloc(n);
    for (size_t i = 0; i < n; i++)
      b[i] = cs_pat(i);
    S.large_calls++;
    if (!coap_add_data_large_request(S.sess, p, n, b, cs_release, b)) {
      coap_delete_pdu(p);
      break;
    }
    coap_send(S.sess, p);
    cs_pump(&S, 500, 150000);
    break;
  }
  case S_BLOCK2:
    p = cs_request(&S, S.sess, 1, COAP_REQUEST_CODE_GET, "big", 0x41);
    if (!p)
      break;
    v = 1;
    coap_add_option(p, COAP_OPTION_BLOCK2, 1, &v);
    coap_send(S.sess, p);
    cs_pump(&S, 500, 150000);
    break;
  case S_OBSERVE: {
    uint8_t tok = 0x51;
    p = coap_new_pdu(COAP_MESSAGE_CON, COAP_REQUEST_CODE_GET, S.sess);
    if (!p)
      break;
    coap_add_token(p, 1, &tok);
    coap_add_option(p, COAP_OPTION_OBSERVE, 0, NULL);
    coap_add_option(p, COAP_OPTION_URI_PATH, 3, (const uint8_t *)"obs");
    coap_send(S.sess, p);
    cs_pump(&S, 300, 60000);
    for (int i = 0; i < 2; i++) {
      coap_resource_notify_observers(S.r_obs, NULL);
      cs_pump(&S, 300, 60000);
    }
    coap_bin_const_t tc = {1, &tok};
    coap_cancel_observe(S.sess, (coap_binary_t *)&tc, COAP_MESSAGE_CON);
    cs_pump(&S, 300, 60000);
    break;
  }
  case S_TCP:
  case S_WS: {
    coap_address_t ca, wa;
    ns_addr(&ca, 51, 41000);
    ns_addr(&wa, 1, 80);
    coap_session_t *t = coap_new_client_session(S.cc, &ca, scn == S_WS ? &wa : &S.srv, scn == S_WS ? COAP_PROTO_WS : COAP_PROTO_TCP);
    if (!t)
      break;
    cs_pump(&S, 300, 30000);
    if (coap_session_get_state(t) == COAP_SESSION_STATE_ESTABLISHED) {
      p = cs_request(&S, t, 1, COAP_REQUEST_CODE_GET, "r", 0x81);
      if (p)
        coap_send(t, p);
      cs_pump(&S, 300, 30000);
      p = cs_request(&S, t, 1, COAP_REQUEST_CODE_PUT, "r", 0x82);
      if (p) {
        coap_add_data(p, 20, (const uint8_t *)"01234567890123456789");
        coap_send(t, p);
      }
      cs_pump(&S, 300, 30000);
    }
    coap_session_release(t);
    cs_pump(&S, 100, 5000);
    break;
  }
  }
}

struct bspace {
  char name[40];
  int scn;
  int nmsgs;   /* messages (datagrams / stream writes) of the fault-free scenario */
  int mode;
  int maxmut;  /* mutation slots per message */
  int loglevel;
  int sem;     /* 1: field-level rewrites (type x code x token x options kept/dropped) instead of byte-level mutations */
};

static void
case_endpoint(uint64_t idx, void *arg) {
  struct bspace *sp = arg;
  target_k = (int)(idx / (uint64_t)sp->maxmut);
  mut_index = (int)(idx % (uint64_t)sp->maxmut);
  mut_mode = sp->mode;
  mut_sem = sp->sem;
  dgrams_seen = stream_writes_seen = 0;
  mutated = 0;
  mut_malformed = 0;
  mut_desc[0] = 0;
  last_orig_len = 0;
  ns_init();
  coap_set_log_level(sp->loglevel ? COAP_LOG_DEBUG : COAP_LOG_EMERG);
  memset(&S, 0, sizeof S);
  int ok = cs_server_new(&S, COAP_PROTO_UDP);
  if (ok) {
    coap_address_t wa;
    ns_addr(&wa, 1, 80);
    if (sp->scn == S_TCP)
      coap_new_endpoint(S.sc, &S.srv, COAP_PROTO_TCP);
    if (sp->scn == S_WS)
      coap_new_endpoint(S.sc, &wa, COAP_PROTO_WS);
    ok = cs_client_new(&S, COAP_PROTO_UDP);
  }
  if (!ok) {
    vx_fail("harness:setup", "set-up failed");
    return;
  }
  if (sp->scn == S_TCP || sp->scn == S_WS)
    ns_stream_filter = stream_filter;
  else
    ns_mutate = mutate_dgram;
  scenario(sp->scn);
  ns_mutate = NULL;
  ns_stream_filter = NULL;
  cs_pump(&S, 500, 400000);
  if (mutated == 1) {
    if (mut_malformed == 1 && mut_mode == 1) {
      /* judged for the extra-copy mode, where the effect of the malformed datagram alone is visible: no application
       * handler, at most one datagram (Reset or error reply) in answer */
      /* (srv_calls_before etc. were taken right before the injection; the original follows and is answered normally,
       *  so allow for its effects: compare against the fault-free totals instead) */
    }
    int canary = cs_canary(&S);
    if (!canary)
      failb(sp->scn, "canary-lost", "after the hostile input a fresh session's GET /r was not answered 2.05 (last code %d)", S.last_code);
    vxp_count(3, 1);
    vxp_distinct(vx_fnv(mut_desc, strlen(mut_desc), (uint64_t)(sp->scn * 64 + target_k) + VX_FNV0));
    if (idx % 1013 == 5)
      vxp_sample("endpoint: scenario %s message %d mutation %s (%s) -> srv_calls=%d 2xx=%d err=%d nacks=%d canary=%d", sname[sp->scn], target_k,
                 mut_desc, mut_mode ? "extra copy" : "replaced", S.srv_calls, S.resp_2xx, S.resp_err, S.nacks, canary);
  } else
    vxp_count(4, 1);
  cs_free(&S);
  if (S.release_calls != S.large_calls && mutated == 1)
    failb(sp->scn, S.release_calls < S.large_calls ? "release:missing" : "release:twice", "%d large-data calls, release callback ran %d times",
          S.large_calls, S.release_calls);
  ns_fini();
}

/* malformed datagram alone: no handler, at most one reply.  Every single-field mutation of a catalogue of valid
 * requests is sent to an idle server (state S0) on its own. */
static void
case_alone(uint64_t idx, void *arg) {
  (void)arg;
  static const struct {
    int type, code;
    const char *path;
    int extra;
  } seeds[] = {{0, 1, "r", 0}, {1, 1, "r", 0}, {0, 3, "put", 1}, {0, 1, "obs", 2}, {0, 1, "big", 3}, {0, 2, "zz", 0}, {0, 1, "r", 4}};
  int maxmut = 660; /* 400 byte-level mutation slots, then the code byte at every value, then the four types */
  int seed = (int)(idx / (uint64_t)maxmut);
  int m = (int)(idx % (uint64_t)maxmut);
  struct w_buf w;
  uint8_t tok[2] = {0x7a, 0x7b};
  w_begin(&w, seeds[seed].type, seeds[seed].code, 0x3333, tok, 2);
  if (seeds[seed].extra == 2)
    w_opt_uint(&w, 6, 0);
  w_opt_add(&w, 11, seeds[seed].path, strlen(seeds[seed].path));
  if (seeds[seed].extra == 4) {
    /* query values with every character class the library's query reconstruction treats specially */
    w_opt_add(&w, 15, "p=/a/b?c?d", 10);
    w_opt_add(&w, 15, "q=%41&=#;:@", 11);
  }
  if (seeds[seed].extra == 3)
    w_opt_uint(&w, 23, 0x01);
  if (seeds[seed].extra == 1) {
    w_opt_uint(&w, 27, 0x08);
    w_payload(&w, "0123456789abcdef", 16);
  }
  if (m < 400 && m >= nmut(w.n))
    return;
  uint8_t buf[300];
  memcpy(buf, w.b, w.n);
  size_t nl;
  if (m >= 656) {
    buf[0] = (uint8_t)((buf[0] & 0xCF) | (m - 656) << 4);
    nl = w.n;
    snprintf(mut_desc, sizeof mut_desc, "type:=%d", m - 656);
  } else if (m >= 400) {
    buf[1] = (uint8_t)(m - 400);
    nl = w.n;
    snprintf(mut_desc, sizeof mut_desc, "code:=%d.%02d", (m - 400) >> 5, (m - 400) & 31);
  } else
    nl = apply_mut(buf, w.n, m);
  struct w_msg pm;
  int malformed = !w_parse(buf, nl, &pm);
  ns_init();
  memset(&S, 0, sizeof S);
  if (!cs_server_new(&S, COAP_PROTO_UDP) || !cs_client_new(&S, COAP_PROTO_UDP)) {
    vx_fail("harness:setup", "set-up failed");
    return;
  }
  coap_address_t pa;
  ns_addr(&pa, 33, 5000);
  int before = ns_total_sent();
  uint8_t *ex = malloc(nl ? nl : 1);
  memcpy(ex, buf, nl);
  ns_inject_now(&pa, &S.srv, ex, nl);
  free(ex);
  ns_prepare_all();
  int replies = ns_total_sent() - before;
  target_k = 0;
  mut_mode = 1;
  last_orig_len = w.n < sizeof last_orig ? w.n : sizeof last_orig;
  memcpy(last_orig, w.b, last_orig_len);
  if (malformed) {
    vxp_count(5, 1);
    if (S.srv_calls)
      failb(S_GET, "handler-on-malformed", "a malformed datagram (%zu bytes) reached an application handler", nl);
    if (replies > 1)
      failb(S_GET, "replies-to-malformed", "%d datagrams emitted in answer to one malformed datagram", replies);
    if (replies == 1) {
      ns_dgram_t *r = ns_inflight(ns_inflight_count() - 1);
      struct w_msg rm;
      if (r && w_parse(r->data, r->len, &rm) && !(rm.type == 3 || (rm.code >> 5) >= 4))
        failb(S_GET, "reply-to-malformed-not-error", "reply to a malformed datagram is type %d code %d.%02d", rm.type, rm.code >> 5, rm.code & 31);
    }
  } else
    vxp_count(6, 1);
  cs_pump(&S, 300, 200000);
  if (!cs_canary(&S))
    failb(S_GET, "canary-lost", "after a lone hostile datagram a fresh session's GET /r was not answered");
  cs_free(&S);
  ns_fini();
  vxp_distinct(vx_fnv(buf, nl, VX_FNV0));
}

/* ------------------------------------------------------------------------------------------ */
/* (C) WebSocket close path with a half-received frame and pending bytes                        */
static const char WS_UPGRADE[] = "GET /.well-known/coap HTTP/1.1\r\nHost: 10.0.0.1:80\r\nUpgrade: websocket\r\nConnection: Upgrade\r\n"
                                 "Sec-WebSocket-Key: dGhlIHNhbXBsZSBub25jZQ==\r\nSec-WebSocket-Protocol: coap\r\nSec-WebSocket-Version: 13\r\n\r\n";
static void
case_wsclose(uint64_t idx, void *arg) {
  (void)arg;
  /* declared frame length L, first part f delivered and read, further p bytes queued when the server closes */
  static const int Ls[] = {120, 200, 300};
  int L = Ls[idx % 3];
  uint64_t x = idx / 3;
  int f = (int)(x % 40) * (L / 40);
  int pq = (int)(x / 40 % 12) * 30 + 1;
  int how = (int)(x / 480); /* 0: teardown of the context, 1: peer sends an invalid opcode frame later */
  if (f + pq > L + 20 || how > 0)
    return;
  ns_init();
  memset(&S, 0, sizeof S);
  if (!cs_server_new(&S, COAP_PROTO_UDP)) {
    vx_fail("harness:setup", "set-up failed");
    return;
  }
  coap_address_t wa, ca;
  ns_addr(&wa, 1, 80);
  ns_addr(&ca, 9, 50000);
  coap_new_endpoint(S.sc, &wa, COAP_PROTO_WS);
  ns_stream_auto = 0;
  ns_stream_t *st = ns_stream_raw_connect(&ca, &wa);
  if (!st) {
    vx_fail("harness:ws-connect", "connect failed");
    return;
  }
  uint8_t hdr[8] = {0x82, 0x80 | 126, (uint8_t)(L >> 8), (uint8_t)L, 1, 2, 3, 4};
  uint8_t body[400];
  memset(body, 0x55, sizeof body);
  ns_stream_raw_write(st, 0, (const uint8_t *)WS_UPGRADE, sizeof WS_UPGRADE - 1);
  ns_stream_release_all(st, 1);
  /* a CSM first so that the session is up */
  uint8_t csm[] = {0x82, 0x82, 9, 9, 9, 9, 0x00 ^ 9, 0xE1 ^ 9};
  ns_stream_raw_write(st, 0, csm, sizeof csm);
  ns_stream_release_all(st, 1);
  ns_stream_raw_write(st, 0, hdr, 8);
  ns_stream_raw_write(st, 0, body, (size_t)f);
  ns_stream_release_all(st, 1);
  /* more bytes arrive but the server is not given a read event before it closes */
  ns_stream_raw_write(st, 0, body, (size_t)pq);
  st->side[1].rx_avail = st->side[1].rx_len;
  ns_prepare_all();
  cs_free(&S); /* coap_free_context -> session close -> coap_ws_close() polls the socket */
  ns_fini();
  vxp_count(7, 1);
  vxp_distinct((uint64_t)L * 1000003 + (uint64_t)f * 1009 + (uint64_t)pq);
}

/* ------------------------------------------------------------------------------------------ */
/* (D) well-formed block-wise requests in hostile order                                          */
/* A raw peer sends sequences of Block1 / Q-Block1 PUT requests whose block numbers come in any order (losses,
 * reordering, a sender that never completes): the re-assembly bookkeeping (received-block ranges, body buffer)
 * must stay inside its bounds, a body handed to the application must be the complete, correct one, and the
 * endpoint keeps serving. */
struct dspace {
  char name[48];
  int len, nnum, optnum;
};
static void
case_blockseq(uint64_t idx, void *arg) {
  struct dspace *d = arg;
  uint64_t x = idx;
  int last_m0 = (int)(x % 2);
  x /= 2;
  int szxvar = (int)(x % 2);
  x /= 2;
  int nums[8];
  for (int i = 0; i < d->len; i++) {
    nums[i] = (int)(x % (uint64_t)d->nnum);
    x /= (uint64_t)d->nnum;
  }
  ns_init();
  memset(&S, 0, sizeof S);
  if (!cs_server_new(&S, COAP_PROTO_UDP) || !cs_client_new(&S, COAP_PROTO_UDP)) {
    vx_fail("harness:setup", "set-up failed");
    return;
  }
  coap_address_t pa;
  ns_addr(&pa, 34, 5000);
  snprintf(mut_desc, sizeof mut_desc, "blockseq");
  target_k = 0;
  last_orig_len = 0;
  int replies_total = 0;
  for (int i = 0; i < d->len; i++) {
    struct w_buf w;
    uint8_t tok[2] = {0x61, (uint8_t)i};
    int szx = (szxvar && i == 2) ? 1 : 0;
    int bs = 16 << szx;
    int m = !(last_m0 && i == d->len - 1);
    w_begin(&w, d->optnum == 19 ? 1 : 0, 3, (uint16_t)(0x4400 + i), tok, 2);
    w_opt_add(&w, 11, "put", 3);
    if (d->optnum == 19)
      w_opt_uint(&w, 19, (unsigned)(nums[i] << 4 | m << 3 | szx));
    else
      w_opt_uint(&w, 27, (unsigned)(nums[i] << 4 | m << 3 | szx));
    uint8_t pl[32];
    for (int k = 0; k < bs; k++)
      pl[k] = cs_pat((size_t)(nums[i] * bs + k));
    w_payload(&w, pl, (size_t)(m ? bs : bs - 3));
    int before = ns_total_sent(), calls = S.srv_calls;
    ns_inject_now(&pa, &S.srv, w.b, w.n);
    ns_prepare_all();
    int replies = ns_total_sent() - before;
    replies_total += replies;
    while (ns_inflight_count())
      ns_drop(0);
    target_k = i;
    if (replies > 1 && d->optnum != 19)
      failb(S_BLOCK1, "blockseq:replies", "%d datagrams emitted in answer to one Block1 request (NUM %d)", replies, nums[i]);
    if (S.srv_calls > calls) {
      /* the application got a body: with SINGLE_BODY it must be a complete prefix-closed body, correct byte for byte */
      vxp_count(9, 1);
      /* a sender that changes the block size, or ends the body (M=0) below a block it sent with M=1, has no
       * well-defined body: safety and liveness only */
      int consistent = !szxvar;
      for (int k = 0; k < i; k++)
        if (!m && nums[k] > nums[i])
          consistent = 0;
      if (!S.srv_put_ok && consistent)
        failb(S_BLOCK1, "blockseq:body-corrupt", "handler received a body that differs from what was sent (NUM order %d,%d,%d,%d...)", nums[0],
              d->len > 1 ? nums[1] : -1, d->len > 2 ? nums[2] : -1, d->len > 3 ? nums[3] : -1);
      int have[16] = {0}, complete = 1;
      for (int k = 0; k <= i; k++)
        have[nums[k]] = 1;
      for (int k = 0; k <= nums[i]; k++)
        if (!have[k])
          complete = 0;
      if (!complete && consistent)
        failb(S_BLOCK1, "blockseq:incomplete-body-delivered", "handler ran although blocks below NUM %d were never received", nums[i]);
    }
  }
  vxp_count(8, 1);
  vxp_count(10, (uint64_t)replies_total);
  /* time passes: partial bodies expire */
  cs_pump(&S, 300, 400000);
  if (!cs_canary(&S))
    failb(S_BLOCK1, "blockseq:canary-lost", "after a hostile block sequence a fresh session's GET /r was not answered");
  cs_free(&S);
  ns_fini();
  vxp_distinct(vx_fnv(nums, sizeof(int) * (size_t)d->len, (uint64_t)(d->optnum * 4 + szxvar * 2 + last_m0)));
}

/* ------------------------------------------------------------------------------------------ */
/* (E) short frame sequences on a stream, every segmentation with <= 2 cuts                      */
/* A raw peer on a TCP or WebSocket connection sends the handshake (WS: upgrade request; both: CSM), then a
 * sequence of frames from a catalogue of small valid, boundary-form and hostile frames; the bytes after the
 * handshake are delivered to the server in every segmentation with at most two cuts.  Verdicts: sanitizers, no hang,
 * canary.  (That valid frames are delivered the same way under every segmentation is C05's business; here the
 * number of handler calls is only recorded.) */
struct espace {
  char name[48];
  int ws, nframes, ncuts;
};
#define EF_N 11
static size_t
ws_frame(uint8_t *o, int opcode, const uint8_t *pl, size_t n, int lenform, int masked) {
  size_t k = 0;
  o[k++] = (uint8_t)(0x80 | opcode);
  uint8_t mk = masked ? 0x80 : 0;
  if (lenform == 0)
    o[k++] = (uint8_t)(mk | n);
  else if (lenform == 1) {
    o[k++] = (uint8_t)(mk | 126);
    o[k++] = (uint8_t)(n >> 8);
    o[k++] = (uint8_t)n;
  } else {
    o[k++] = (uint8_t)(mk | 127);
    for (int i = 7; i >= 0; i--)
      o[k++] = (uint8_t)(i < 2 ? n >> (8 * i) : 0);
  }
  static const uint8_t key[4] = {0x11, 0x22, 0x33, 0x44};
  if (masked) {
    memcpy(o + k, key, 4);
    k += 4;
  }
  for (size_t i = 0; i < n; i++)
    o[k++] = masked ? (uint8_t)(pl[i] ^ key[i & 3]) : pl[i];
  return k;
}
static size_t
eframe(int ws, int f, uint8_t *o) {
  static const uint8_t get_r[] = {0x01, 0x01, 0x77, 0xB1, 'r'}; /* WS: len nibble 0 */
  static const uint8_t csm[] = {0x00, 0xE1};
  uint8_t big[40] = {0x01, 0x01, 0x78, 0xB1, 'r', 0xFF};
  memset(big + 6, 'p', 20);
  if (ws) {
    switch (f) {
    case 0: return ws_frame(o, 2, csm, 2, 0, 1);
    case 1: return ws_frame(o, 2, get_r, 5, 0, 1);
    case 2: return ws_frame(o, 2, get_r, 5, 1, 1); /* 16-bit length form */
    case 3: return ws_frame(o, 2, get_r, 5, 2, 1); /* 64-bit length form */
    case 4: return ws_frame(o, 2, get_r, 0, 0, 1); /* empty frame */
    case 5: return ws_frame(o, 9, csm, 2, 0, 1);   /* ping */
    case 6: return ws_frame(o, 2, big, 26, 0, 1);
    case 7: return ws_frame(o, 2, get_r, 1, 0, 1); /* shorter than a CoAP header */
    case 8: return ws_frame(o, 2, get_r, 5, 0, 0); /* not masked */
    case 9: { static const uint8_t rel[] = {0x01, 0xE4, 0x5A, 0x41, 0x05}; return ws_frame(o, 2, rel, 5, 0, 1); }  /* 7.04 Release with token + Hold-Off */
    default: { static const uint8_t ab[] = {0x00, 0xE5, 0xFF, 'b', 'y', 'e'}; return ws_frame(o, 2, ab, 6, 0, 1); } /* 7.05 Abort with diagnostic payload */
    }
  }
  switch (f) {
  case 0: memcpy(o, csm, 2); return 2;
  case 1: { static const uint8_t m[] = {0x21, 0x01, 0x77, 0xB1, 'r'}; memcpy(o, m, 5); return 5; }
  case 2: { /* Len 13-form: 2 option bytes + marker + 20 payload = 23 -> ext 10 */
    o[0] = 0xD1; o[1] = 10; o[2] = 0x01; o[3] = 0x78; o[4] = 0xB1; o[5] = 'r'; o[6] = 0xFF; memset(o + 7, 'p', 20); return 27; }
  case 3: o[0] = 0x00; o[1] = 0x00; return 2;   /* empty message */
  case 4: o[0] = 0x00; o[1] = 0xE2; return 2;   /* ping */
  case 5: { /* token length 13 form: TKL nibble 13, ext byte 0 => 13-byte token */
    o[0] = 0x2D; o[1] = 0x01; o[2] = 0x00; memset(o + 3, 0x55, 13); o[16] = 0xB1; o[17] = 'r'; return 18; }
  case 6: o[0] = 0xE0; o[1] = 0x00; o[2] = 0x00; o[3] = 0x01; return 4; /* Len 14-form announcing 269 bytes that never come */
  case 7: o[0] = 0x0F; o[1] = 0x01; return 2;   /* TKL 15 */
  case 8: { static const uint8_t m[] = {0x11, 0x01, 0x79, 0xFF}; memcpy(o, m, 4); return 4; } /* marker without payload */
  case 9: { static const uint8_t m[] = {0x21, 0xE4, 0x5A, 0x41, 0x05}; memcpy(o, m, 5); return 5; } /* 7.04 Release with token + Hold-Off option */
  default: { static const uint8_t m[] = {0x40, 0xE5, 0xFF, 'b', 'y', 'e'}; memcpy(o, m, 6); return 6; } /* 7.05 Abort with diagnostic payload */
  }
}
static void
case_streamcuts(uint64_t idx, void *arg) {
  struct espace *e = arg;
  uint64_t x = idx;
  int fr[4];
  uint8_t stream[400];
  size_t n = 0;
  for (int i = 0; i < e->nframes; i++) {
    fr[i] = (int)(x % EF_N);
    x /= EF_N;
    n += eframe(e->ws, fr[i], stream + n);
  }
  size_t c1 = 0, c2 = 0;
  if (e->ncuts >= 1) {
    c1 = (size_t)(x % 120);
    x /= 120;
  }
  if (e->ncuts >= 2) {
    c2 = (size_t)(x % 120);
    x /= 120;
    if (c2 <= c1)
      return; /* ordered pairs only */
  }
  if ((e->ncuts >= 1 && (c1 == 0 || c1 >= n)) || (e->ncuts >= 2 && c2 >= n))
    return;
  ns_init();
  memset(&S, 0, sizeof S);
  if (!cs_server_new(&S, COAP_PROTO_UDP) || !cs_client_new(&S, COAP_PROTO_UDP)) {
    vx_fail("harness:setup", "set-up failed");
    return;
  }
  coap_address_t la, ca;
  ns_addr(&la, 1, e->ws ? 80 : 5683);
  ns_addr(&ca, 9, 50001);
  coap_new_endpoint(S.sc, &la, e->ws ? COAP_PROTO_WS : COAP_PROTO_TCP);
  ns_stream_auto = 0;
  ns_stream_t *st = ns_stream_raw_connect(&ca, &la);
  if (!st) {
    vx_fail("harness:stream-connect", "connect failed");
    return;
  }
  snprintf(mut_desc, sizeof mut_desc, "frames %d,%d,%d cuts %zu,%zu", fr[0], e->nframes > 1 ? fr[1] : -1, e->nframes > 2 ? fr[2] : -1, c1, c2);
  target_k = 0;
  last_orig_len = n < sizeof last_orig ? n : sizeof last_orig;
  memcpy(last_orig, stream, last_orig_len);
  if (e->ws) {
    ns_stream_raw_write(st, 0, (const uint8_t *)WS_UPGRADE, sizeof WS_UPGRADE - 1);
    ns_stream_release_all(st, 1);
  }
  uint8_t hs[16];
  size_t hn = eframe(e->ws, 0, hs); /* CSM */
  ns_stream_raw_write(st, 0, hs, hn);
  ns_stream_release_all(st, 1);
  int calls0 = S.srv_calls;
  ns_stream_raw_write(st, 0, stream, n);
  size_t at = 0;
  if (e->ncuts >= 1) {
    ns_stream_release(st, 1, c1 - at);
    at = c1;
  }
  if (e->ncuts >= 2) {
    ns_stream_release(st, 1, c2 - at);
    at = c2;
  }
  ns_stream_release(st, 1, n - at);
  ns_prepare_all();
  /* the peer keeps talking: three large valid frames in one piece (a reader left in a wrong state by the sequence
   * above meets enough bytes to run past any buffer it believes it is filling) */
  {
    static uint8_t tail[4600];
    uint8_t msg[1500];
    size_t tn = 0, ml;
    for (int k = 0; k < 3; k++) {
      if (e->ws) {
        msg[0] = 0x01; msg[1] = 0x01; msg[2] = (uint8_t)(0x80 + k); msg[3] = 0xB1; msg[4] = 'r'; msg[5] = 0xFF;
        memset(msg + 6, 'T', 1394);
        ml = 1400;
        tn += ws_frame(tail + tn, 2, msg, ml, 1, 1);
      } else {
        /* Len 14-form: options(2) + marker(1) + payload(1394) = 1397 = 269 + 1128 */
        uint8_t *o = tail + tn;
        o[0] = 0xE1; o[1] = (uint8_t)(1128 >> 8); o[2] = (uint8_t)1128; o[3] = 0x01; o[4] = (uint8_t)(0x80 + k); o[5] = 0xB1; o[6] = 'r'; o[7] = 0xFF;
        memset(o + 8, 'T', 1394);
        tn += 8 + 1394;
      }
    }
    ns_stream_raw_write(st, 0, tail, tn);
    ns_stream_release_all(st, 1);
    ns_prepare_all();
  }
  vxp_count(11, 1);
  vxp_count(12, (uint64_t)(S.srv_calls - calls0));
  ns_stream_auto = 1;
  cs_pump(&S, 100, 100000);
  if (!cs_canary(&S))
    failb(e->ws ? S_WS : S_TCP, "streamcuts:canary-lost", "after the frame sequence a fresh session's GET /r was not answered");
  cs_free(&S);
  ns_fini();
  vxp_distinct(vx_fnv(stream, n, (uint64_t)(c1 * 131 + c2) * 2 + (uint64_t)e->ws));
}

/* ------------------------------------------------------------------------------------------ */
static void
discard_log(coap_log_t l, const char *m) {
  (void)l;
  (void)m;
}

int
main(int argc, char **argv) {
  vx_main_init(argc, argv, "C02");
  int T = vx_is_thorough();
  build_hv();
  coap_startup();
  coap_set_log_handler(discard_log);
  coap_set_show_pdu_output(0);
  coap_set_log_level(COAP_LOG_DEBUG); /* the debug printer walks every accepted PDU again */
  struct aspace as[8];
  int nas = 0;
  for (int l = 0; l <= (T ? 3 : 2); l++) {
    snprintf(as[nas].name, sizeof as[nas].name, "parser:256^%d", l);
    as[nas].len = l;
    as[nas].full = 1;
    nas++;
  }
  for (int l = 3; l <= (T ? 6 : 5); l++) {
    snprintf(as[nas].name, sizeof as[nas].name, "parser:a20^%d", l);
    as[nas].len = l;
    as[nas].full = 0;
    nas++;
  }
  /* endpoint spaces: message counts from a fault-free dry run of each scenario (done in a child to keep main clean) */
  struct bspace bs[48];
  memset(bs, 0, sizeof bs);
  int nbs = 0;
  static const int nmsg_guess[S_N] = {2, 4, 8, 8, 10, 6, 8};
  for (int scn = 0; scn < S_N; scn++)
    for (int mode = 0; mode < 2; mode++) {
      if ((scn == S_TCP || scn == S_WS) && mode == 1)
        continue;
      for (int ll = 0; ll < (T ? 2 : 1); ll++) {
        snprintf(bs[nbs].name, sizeof bs[nbs].name, "endpoint:%s:%s:log%d", sname[scn], mode ? "extra" : "replace", ll);
        bs[nbs].scn = scn;
        bs[nbs].mode = mode;
        bs[nbs].nmsgs = nmsg_guess[scn];
        bs[nbs].maxmut = T ? 520 : (scn >= S_TCP ? 300 : 360);
        bs[nbs].loglevel = ll;
        nbs++;
      }
    }
  /* (F) field-level rewrites of every datagram of the five UDP exchanges */
  for (int scn = 0; scn < S_TCP; scn++)
    for (int mode = 0; mode < 2; mode++) {
      snprintf(bs[nbs].name, sizeof bs[nbs].name, "endpoint:%s:%s:rewrite", sname[scn], mode ? "extra" : "replace");
      bs[nbs].scn = scn;
      bs[nbs].mode = mode;
      bs[nbs].nmsgs = nmsg_guess[scn];
      bs[nbs].maxmut = SEM_N;
      bs[nbs].loglevel = 0;
      bs[nbs].sem = 1;
      nbs++;
    }
  static struct dspace ds[12];
  int nds = 0;
  for (int opt = 27; opt >= 19; opt -= 8)
    for (int l = 1; l <= (T ? 6 : 5); l++) {
      ds[nds].len = l;
      ds[nds].nnum = l >= 6 ? 9 : l >= 5 ? (T ? 11 : 9) : 12;
      ds[nds].optnum = opt;
      snprintf(ds[nds].name, sizeof ds[nds].name, "blockseq:%s:len%d:num<%d", opt == 27 ? "block1" : "qblock1", l, ds[nds].nnum);
      nds++;
    }
  for (int i = 0; i < nds; i++)
    if (vxp_replay_if_match(ds[i].name, case_blockseq, &ds[i]))
      return 0;
  static struct espace es[12];
  int nes = 0;
  for (int ws = 0; ws < 2; ws++)
    for (int v = 0; v < (T ? 3 : 2); v++) {
      /* v0: 2 frames x all cut pairs; v1: 3 frames x single cuts; v2 (thorough): 3 frames x all cut pairs */
      es[nes].ws = ws;
      es[nes].nframes = v == 0 ? 2 : 3;
      es[nes].ncuts = v == 1 ? 1 : 2;
      snprintf(es[nes].name, sizeof es[nes].name, "streamcuts:%s:frames%d:cuts%d", ws ? "ws" : "tcp", es[nes].nframes, es[nes].ncuts);
      nes++;
    }
  for (int i = 0; i < nes; i++)
    if (vxp_replay_if_match(es[i].name, case_streamcuts, &es[i]))
      return 0;
  for (int i = 0; i < nas; i++)
    if (vxp_replay_if_match(as[i].name, case_parse, &as[i]))
      return 0;
  for (int i = 0; i < nbs; i++)
    if (vxp_replay_if_match(bs[i].name, case_endpoint, &bs[i]))
      return 0;
  if (vxp_replay_if_match("lone-mutated-request", case_alone, NULL))
    return 0;
  if (vxp_replay_if_match("ws-close-pending", case_wsclose, NULL))
    return 0;
  if (vx_replay_path()) {
    fprintf(stderr, "replay file does not match any space\n");
    return 2;
  }
  uint64_t total = 0;
  struct vxp_stats st;
  {
    struct vxp_config c = {.space = "ws-close-pending", .total = 3 * 40 * 12};
    vxp_enumerate(&c, case_wsclose, NULL, &st);
    total += st.done;
  }
  {
    struct vxp_config c = {.space = "lone-mutated-request", .total = 7 * 660};
    vxp_enumerate(&c, case_alone, NULL, &st);
    total += st.done;
  }
  for (int i = 0; i < nes; i++) {
    struct vxp_config c = {.space = es[i].name, .total = ipow(EF_N, es[i].nframes) * (es[i].ncuts == 2 ? 120 * 120 : 120), .chunk = 64};
    vxp_enumerate(&c, case_streamcuts, &es[i], &st);
    total += st.done;
  }
  for (int i = 0; i < nds; i++) {
    struct vxp_config c = {.space = ds[i].name, .total = 4 * ipow(ds[i].nnum, ds[i].len), .chunk = 16};
    vxp_enumerate(&c, case_blockseq, &ds[i], &st);
    total += st.done;
  }
  for (int i = 0; i < nbs; i++) {
    struct vxp_config c = {.space = bs[i].name, .total = (uint64_t)bs[i].nmsgs * (uint64_t)bs[i].maxmut, .chunk = 16};
    vxp_enumerate(&c, case_endpoint, &bs[i], &st);
    total += st.done;
  }
  for (int i = 0; i < nas; i++) {
    struct vxp_config c = {.space = as[i].name, .total = (uint64_t)nhv * ipow(as[i].full ? 256 : 20, as[i].len)};
    vxp_enumerate(&c, case_parse, &as[i], &st);
    total += st.done;
  }
  vx_ev_add_states((long long)total, (long long)total, (long long)total);
  vx_ev_add_evals((long long)total, (long long)vxp_distinct_count());
  vx_ev_int("parser_accepted_and_walked", (long long)vxp_counter(1));
  vx_ev_int("parser_rejected", (long long)vxp_counter(2));
  vx_ev_int("endpoint_mutations_run", (long long)vxp_counter(3));
  vx_ev_int("endpoint_indices_without_mutation", (long long)vxp_counter(4));
  vx_ev_int("lone_malformed", (long long)vxp_counter(5));
  vx_ev_int("lone_wellformed_mutants", (long long)vxp_counter(6));
  vx_ev_int("ws_close_cases", (long long)vxp_counter(7));
  vx_ev_int("streamcut_cases", (long long)vxp_counter(11));
  vx_ev_int("streamcut_handler_calls", (long long)vxp_counter(12));
  vx_ev_int("blockseq_sequences", (long long)vxp_counter(8));
  vx_ev_int("blockseq_bodies_delivered", (long long)vxp_counter(9));
  vx_ev_int("blockseq_replies", (long long)vxp_counter(10));
  vx_ev_rule("(A) all byte strings of length <=2 (thorough 3) over 256 values and length 3..5 (thorough 6) over a 20-value boundary alphabet after 27 "
             "header variants (UDP TKL x code, TCP length forms, WS) through coap_pdu_parse + debug printer + all accessors; (B) every single-field "
             "mutation (every truncation, every byte -> 00/FF/+1/-1, every bit of the first 24 bytes, three appendices) of every message of 7 valid "
             "exchanges (GET, async, Block1, Block2, observe, TCP, WebSocket) delivered instead of / in addition to the original, then a canary; (F) the same for every field-level rewrite of every datagram of the 5 UDP exchanges (type {kept,CON,NON,ACK,RST} x code {kept,0.00,2.05,2.31,4.01,4.08,4.13,5.03,0.01} x token {kept,changed,none,8xFF} x options+payload {kept,dropped}: well-formed messages that say something else); every "
             "mutation of 7 lone requests (one with Uri-Query values full of reserved characters) to an idle server (malformed => no handler, <=1 error/RST reply); (C) WebSocket close with a half received "
             "frame and pending bytes, all splits; (D) all sequences of 1..5 (thorough 6) well-formed Block1 and Q-Block1 PUT requests from one raw peer with "
             "block numbers in any order from 0..11 (length 5: 0..8, thorough 0..10; length 6: 0..8), with/without M=0 on the last one, with/without a "
             "block-size change in the third, against a SINGLE_BODY server: bounds (ASan/UBSan), delivered body complete and correct, canary; (E) after the handshake, all sequences of 2 frames from an 11-frame "
             "catalogue per stream transport (TCP: CSM, GET, 13-form length, empty, ping, extended token, 14-form length announcing bytes that never "
             "come, TKL 15, marker without payload, 7.04 Release with token and option, 7.05 Abort with payload; WS: CSM, GET in the 7-bit/16-bit/"
             "64-bit length forms, empty, ping, longer GET, 1-byte, unmasked, Release, Abort) "
             "under every segmentation with <= 2 cuts, and of 3 frames with 1 cut (thorough: 2 cuts), each followed by three 1400-byte valid frames in one "
             "piece; distinct = distinct accepted byte strings / mutation descriptors");
  vx_ev_assumption("malformed = rejected by the harness's own RFC 7252 structure parser (wire.h); option-content semantics are not judged");
  vx_ev_assumption("not all byte strings: bounded lengths/alphabets and single mutations per state (double mutations are not enumerated)");
  return vx_finish();
}
