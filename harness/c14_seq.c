/* C14 (stage c14seq) -- OSCORE protection over sequences of exchanges on one security context.
 *
 * The single-exchange product (c14_oscore.c) binds every response to the request just before it.  Here a real libcoap
 * OSCORE server on the simulated network talks to the reference implementation (ref/refoscore.c) acting as client, over
 * all sequences of depth <= D of: plain GET, Observe registration, Observe cancellation on two tokens, and resource
 * changes (notifications).  RFC 8613 binds a response to the request it answers through the request's kid and Partial IV
 * in the AAD (5.4) and, without an own Partial IV, through its nonce; a notification is bound to the registration it
 * belongs to (4.1.3.5.2, 8.3).  Verdict: every datagram the server emits for a token unprotects with the reference under
 * the binding of the right request -- the request just sent for a direct response, the latest registration on that token
 * for a notification -- and carries the expected inner code.
 */
#include "netsim.h"
#include "vx.h"
#include "refoscore.h"

static const uint8_t MS[16] = {1, 2, 3, 4, 5, 6, 7, 8, 9, 10, 11, 12, 13, 14, 15, 16};
static const uint8_t SALT[8] = {0x9e, 0x7c, 0xa9, 0x22, 0x23, 0x78, 0x63, 0x40};
static const uint8_t IDCTX[4] = {0x37, 0xcb, 0xf3, 0x21};

enum { O_GET0, O_GET1, O_REG0, O_REG1, O_CAN0, O_CAN1, O_CHG, O_N, O_TAMPER = O_N, O_REPLAY, O_UNKKID, O_NREJ };
static const char *oname[] = {"get(t0)", "get(t1)", "reg(t0)", "reg(t1)", "cancel(t0)", "cancel(t1)", "change",
                              /* family seqrej: datagrams the server must reject, in between */
                              "tampered", "replayed", "unknown-kid"};

struct scfg {
  char name[64];
  int depth, idctx, con;
  int nops; /* size of the alphabet: O_N, or O_NREJ for the family with rejected datagrams */
};

static coap_context_t *sctx;
static coap_resource_t *res_o;
static coap_address_t srv, cli;
static refoscore_ctx_t rc, rc_unk; /* rc_unk: same secret, a sender id the server has no context for */
static int handler_calls;
static uint16_t next_mid;
#define MAXCAP 8
static struct {
  uint8_t b[200];
  size_t n;
} cap[MAXCAP];
static int ncap;

static void
hnd(coap_resource_t *r, coap_session_t *s, const coap_pdu_t *req, const coap_string_t *q, coap_pdu_t *resp) {
  (void)r;
  (void)s;
  (void)req;
  (void)q;
  handler_calls++;
  coap_pdu_set_code(resp, COAP_RESPONSE_CODE_CONTENT);
  uint8_t v[2] = {'v', (uint8_t)('0' + handler_calls % 10)};
  coap_add_data(resp, 2, v);
}
static void
on_send(const ns_dgram_t *d) {
  if (ncap < MAXCAP && d->len <= sizeof cap[0].b) {
    memcpy(cap[ncap].b, d->data, d->len);
    cap[ncap++].n = d->len;
  }
}

/* the reference client acknowledges every Confirmable the server sent (separate responses, notifications) */
static void
ack_all(void) {
  for (int k = 0; k < ncap; k++)
    if (cap[k].n >= 4 && ((cap[k].b[0] >> 4) & 3) == 0) {
      uint8_t a[4] = {0x60, 0x00, cap[k].b[2], cap[k].b[3]};
      int keep = ncap;
      ns_inject_now(&cli, &srv, a, 4);
      ncap = keep;
    }
  ns_prepare_all();
  while (ns_inflight_count())
    ns_drop(0);
}

static int
server_start(const struct scfg *c) {
  char conf[600];
  snprintf(conf, sizeof conf,
           "master_secret,hex,\"0102030405060708090a0b0c0d0e0f10\"\n"
           "master_salt,hex,\"9e7ca92223786340\"\n"
           "sender_id,hex,\"01\"\n"
           "recipient_id,hex,\"02\"\n"
           "%s"
           "replay_window,integer,32\n"
           "rfc8613_b_1_2,bool,false\n",
           c->idctx ? "id_context,hex,\"37cbf321\"\n" : "");
  coap_str_const_t cm = {strlen(conf), (const uint8_t *)conf};
  coap_oscore_conf_t *oc = coap_new_oscore_conf(cm, NULL, NULL, 0);
  if (!oc)
    return 0;
  sctx = coap_new_context(NULL);
  ns_register_ctx(sctx);
  if (!coap_context_oscore_server(sctx, oc))
    return 0;
  ns_addr(&srv, 1, 5683);
  ns_addr(&cli, 40, 5000);
  coap_new_endpoint(sctx, &srv, COAP_PROTO_UDP);
  res_o = coap_resource_init(coap_make_str_const("o"), COAP_RESOURCE_FLAGS_OSCORE_ONLY);
  coap_register_request_handler(res_o, COAP_REQUEST_GET, hnd);
  coap_resource_set_get_observable(res_o, 1);
  coap_add_resource(sctx, res_o);
  refoscore_params_t p = {MS, 16, SALT, 8, (const uint8_t *)"\x02", 1, (const uint8_t *)"\x01", 1, IDCTX, 4, c->idctx};
  refoscore_params_t pu = {MS, 16, SALT, 8, (const uint8_t *)"\x05", 1, (const uint8_t *)"\x01", 1, IDCTX, 4, c->idctx};
  return refoscore_derive(&p, &rc) == REFOSCORE_OK && refoscore_derive(&pu, &rc_unk) == REFOSCORE_OK;
}

struct tokstate {
  int registered;
  refoscore_reqbind_t regbind; /* binding of the latest registration */
  char last[12];               /* kind of the previous request on this token */
};

static void
case_seq(uint64_t idx, void *arg) {
  struct scfg *c = arg;
  int ops[8];
  uint64_t x = idx;
  char hist[120] = "";
  size_t hl = 0;
  for (int i = 0; i < c->depth; i++) {
    ops[i] = (int)(x % (unsigned)c->nops);
    x /= (unsigned)c->nops;
    hl += (size_t)snprintf(hist + hl, sizeof hist - hl, "%s%s", i ? " " : "", oname[ops[i]]);
  }
  ns_init();
  ns_on_send = on_send;
  handler_calls = 0;
  next_mid = 0x3000;
  if (!server_start(c)) {
    vx_fail("harness:server-start", "could not start the OSCORE server");
    return;
  }
  struct tokstate ts[2];
  memset(ts, 0, sizeof ts);
  strcpy(ts[0].last, "none");
  strcpy(ts[1].last, "none");
  uint64_t piv = 0;
  int failed = 0;
  uint8_t lastreq[200];
  size_t lastn = 0;
  for (int i = 0; i < c->depth && !failed; i++) {
    int op = ops[i];
    ncap = 0;
    if (op == O_CHG) {
      coap_resource_notify_observers(res_o, NULL);
      ns_prepare_all();
      while (ns_inflight_count())
        ns_drop(0);
      ack_all();
      for (int k = 0; k < ncap && !failed; k++) {
        refoscore_msg_t outer, merged;
        uint8_t tok[8], type;
        size_t tkl = 0;
        if (refoscore_coap_decode(cap[k].b, cap[k].n, &outer, &type, NULL, tok, &tkl) != REFOSCORE_OK || tkl != 1)
          continue;
        int t = tok[0] == 0xA0 ? 0 : tok[0] == 0xA1 ? 1 : -1;
        if (t < 0 || !ts[t].registered)
          continue; /* whether a notification may be sent at all is C11's question */
        vxp_count(2, 1);
        int r = refoscore_unprotect_response(&rc, &ts[t].regbind, &outer, &merged, NULL);
        if (r != REFOSCORE_OK) {
          char sig[120];
          snprintf(sig, sizeof sig, "seq:notification-unverifiable:last-on-token=%s", ts[t].last);
          vx_fail(sig, "idctx=%d history [%s]: notification for t%d (step %d) does not verify under the binding of the latest registration on that token: %s",
                  c->idctx, hist, t, i, refoscore_strerror(r));
          failed = 1;
        } else if (merged.code != 0x45) {
          vx_fail("seq:notification-code", "history [%s]: notification inner code %d.%02d", hist, merged.code >> 5, merged.code & 31);
          failed = 1;
        }
      }
      continue;
    }
    if (op >= O_TAMPER) {
      /* a datagram the server must reject without a handler call; what it answers (an unprotected 4.0x) is not judged
       * here, what it sends afterwards on the same session is: later steps go on as if this one had not happened */
      uint8_t buf[200];
      int n = 0;
      if (op == O_REPLAY) {
        if (!lastn)
          continue;
        memcpy(buf, lastreq, lastn);
        n = (int)lastn;
        buf[2] = (uint8_t)(next_mid >> 8);
        buf[3] = (uint8_t)next_mid;
        next_mid++;
      } else {
        refoscore_msg_t in, out;
        refoscore_reqbind_t bind;
        refoscore_msg_init(&in, 0x01);
        refoscore_msg_add_opt(&in, 11, "o", 1);
        uint8_t tok = 0xA7;
        if (refoscore_protect_request(op == O_UNKKID ? &rc_unk : &rc, &in, piv++, &out, &bind) != REFOSCORE_OK ||
            (n = refoscore_coap_encode(&out, c->con ? 0 : 1, next_mid++, &tok, 1, buf, sizeof buf)) <= 0) {
          vx_fail("harness:protect", "reference could not protect the request");
          break;
        }
        if (op == O_TAMPER)
          buf[n - 1] ^= 0x10;
      }
      int before = handler_calls;
      ns_inject_now(&cli, &srv, buf, (size_t)n);
      ns_prepare_all();
      while (ns_inflight_count())
        ns_drop(0);
      ack_all();
      vxp_count(4, 1);
      if (handler_calls != before) {
        char sig[100];
        snprintf(sig, sizeof sig, "seq:handler-called-for:%s", oname[op]);
        vx_fail(sig, "idctx=%d history [%s]: step %d (%s datagram) reached the application handler", c->idctx, hist, i, oname[op]);
        failed = 1;
      }
      continue;
    }
    int t = (op - O_GET0) % 2;
    int kind = (op - O_GET0) / 2; /* 0 get, 1 register, 2 cancel */
    if (kind == 0 && ts[t].registered) {
      /* a client that reuses the token of a running observation for an unrelated request makes later notifications
       * ambiguous (RFC 7252 5.3.1): not a behaviour of a correct peer, the history is left out */
      vxp_count(3, 1);
      break;
    }
    refoscore_msg_t in, out;
    refoscore_reqbind_t bind;
    refoscore_msg_init(&in, 0x01);
    if (kind == 1)
      refoscore_msg_add_opt(&in, 6, "", 0);
    else if (kind == 2)
      refoscore_msg_add_opt(&in, 6, "\x01", 1);
    refoscore_msg_add_opt(&in, 11, "o", 1);
    if (refoscore_protect_request(&rc, &in, piv++, &out, &bind) != REFOSCORE_OK) {
      vx_fail("harness:protect", "reference could not protect the request");
      break;
    }
    uint8_t tok = (uint8_t)(0xA0 + t), buf[200];
    int n = refoscore_coap_encode(&out, c->con ? 0 : 1, next_mid++, &tok, 1, buf, sizeof buf);
    if (n <= 0) {
      vx_fail("harness:encode", "reference could not encode the request");
      break;
    }
    int before = handler_calls;
    memcpy(lastreq, buf, (size_t)n);
    lastn = (size_t)n;
    ns_inject_now(&cli, &srv, buf, (size_t)n);
    ns_prepare_all();
    while (ns_inflight_count())
      ns_drop(0);
    ack_all();
    int answered = 0;
    for (int k = 0; k < ncap && !failed; k++) {
      refoscore_msg_t outer, merged;
      uint8_t tk[8], type;
      size_t tkl = 0;
      if (refoscore_coap_decode(cap[k].b, cap[k].n, &outer, &type, NULL, tk, &tkl) != REFOSCORE_OK)
        continue;
      if (outer.code == 0 || tkl != 1 || tk[0] != tok)
        continue;
      answered = 1;
      vxp_count(1, 1);
      int r = refoscore_unprotect_response(&rc, &bind, &outer, &merged, NULL);
      if (r != REFOSCORE_OK) {
        char sig[120];
        snprintf(sig, sizeof sig, "seq:response-unverifiable:%s-after-%s-on-token", kind == 0 ? "get" : kind == 1 ? "register" : "cancel", ts[t].last);
        vx_fail(sig, "idctx=%d history [%s]: the response to step %d (%s) does not verify under the binding of that request: %s", c->idctx, hist,
                i, oname[op], refoscore_strerror(r));
        failed = 1;
      } else if (merged.code != 0x45) {
        char sig[100];
        snprintf(sig, sizeof sig, "seq:response-code:%d.%02d", merged.code >> 5, merged.code & 31);
        vx_fail(sig, "idctx=%d history [%s]: step %d (%s) answered %d.%02d, expected 2.05", c->idctx, hist, i, oname[op], merged.code >> 5,
                merged.code & 31);
        failed = 1;
      }
    }
    if (!failed && (!answered || handler_calls == before)) {
      vx_fail(answered ? "seq:handler-not-called" : "seq:no-response", "idctx=%d history [%s]: step %d (%s): %s", c->idctx, hist, i, oname[op],
              answered ? "answered without the handler" : "no response for a genuine fresh request");
      failed = 1;
    }
    if (kind == 1) {
      ts[t].registered = 1;
      ts[t].regbind = bind;
    } else if (kind == 2)
      ts[t].registered = 0;
    strcpy(ts[t].last, kind == 0 ? "get" : kind == 1 ? "register" : "cancel");
  }
  ns_unregister_ctx(sctx);
  coap_free_context(sctx);
  sctx = NULL;
  ns_fini();
  vxp_count(0, 1);
  vxp_distinct(vx_fnv(ops, sizeof(int) * (size_t)c->depth, (uint64_t)(c->idctx * 2 + c->con + 4 * c->nops)));
  if (idx % 397 == 5)
    vxp_sample("idctx=%d con=%d [%s]: all responses and notifications verified by the reference", c->idctx, c->con, hist);
}

int
main(int argc, char **argv) {
  vx_main_init(argc, argv, "C14");
  int T = vx_is_thorough();
  int checks = 0;
  if (refoscore_selftest(&checks) < 0) {
    fprintf(stderr, "refoscore self-test failed\n");
    return 2;
  }
  static struct scfg cf[24];
  int ncf = 0;
  for (int d = 1; d <= (T ? 6 : 5); d++) {
    if (d > 2 && d < (T ? 6 : 5))
      continue; /* every prefix of a longer history is judged step by step */
    for (int ic = 0; ic < 2; ic++)
      for (int con = 0; con < 2; con++) {
        struct scfg c = {.depth = d, .idctx = ic, .con = con, .nops = O_N};
        snprintf(c.name, sizeof c.name, "seq:d=%d:idctx=%d:%s", d, ic, con ? "con" : "non");
        cf[ncf++] = c;
      }
  }
  /* the same histories with datagrams in between that the server has to reject (tampered, replayed, unknown kid) */
  for (int ic = 0; ic < 2; ic++)
    for (int con = 0; con < 2; con++) {
      struct scfg c = {.depth = T ? 5 : 4, .idctx = ic, .con = con, .nops = O_NREJ};
      snprintf(c.name, sizeof c.name, "seqrej:d=%d:idctx=%d:%s", c.depth, ic, con ? "con" : "non");
      cf[ncf++] = c;
    }
  for (int i = 0; i < ncf; i++)
    if (vxp_replay_if_match(cf[i].name, case_seq, &cf[i]))
      return 0;
  if (vx_replay_path()) {
    fprintf(stderr, "replay file does not match any space\n");
    return 2;
  }
  uint64_t total = 0;
  struct vxp_stats st;
  for (int i = 0; i < ncf; i++) {
    uint64_t n = 1;
    for (int k = 0; k < cf[i].depth; k++)
      n *= (unsigned)cf[i].nops;
    struct vxp_config c = {.space = cf[i].name, .total = n, .chunk = 16};
    vxp_enumerate(&c, case_seq, &cf[i], &st);
    total += st.done;
  }
  vx_ev_add_states((long long)total, (long long)(vxp_counter(1) + vxp_counter(2)), (long long)total);
  vx_ev_add_evals((long long)total, (long long)vxp_distinct_count());
  vx_ev_int("seq.histories", (long long)vxp_counter(0));
  vx_ev_int("seq.responses_verified_by_reference", (long long)vxp_counter(1));
  vx_ev_int("seq.notifications_verified_by_reference", (long long)vxp_counter(2));
  vx_ev_int("seq.histories_cut_at_token_reuse_during_observation", (long long)vxp_counter(3));
  vx_ev_int("seq.rejected_datagrams_in_between", (long long)vxp_counter(4));
  vx_ev_rule("stage c14seq: all histories of depth 1, 2 and 5 (thorough 6) over {GET, Observe register, Observe cancel} x two tokens + resource "
             "change, requests protected by the reference implementation with increasing Partial IVs, against a real libcoap OSCORE server "
             "(with / without ID Context, CON / NON); every response must verify under the binding (kid, Partial IV, nonce) of the request it "
             "answers and every notification under the binding of the latest registration on its token; family seqrej: depth 4 (thorough 5) "
             "with three more letters -- a tampered, a replayed and an unknown-kid datagram, none of which may reach a handler or change how "
             "what follows is protected");
  return vx_finish();
}
