/* C14 (stage c14b2) -- RFC 8613 Appendix B.2: security context re-derivation between a libcoap client and a libcoap server.
 *
 * A real client session (coap_new_client_session_oscore) and a real server context (coap_context_oscore_server), both with
 * rfc8613_b_2 = true, talk over the simulated network.  The client protects its request under a context derived with a
 * random ID Context ID1; the server derives the same context (oscore_duplicate_ctx), moves to R2||ID1 and answers 4.01
 * with R2 as kid context; the client follows to R2||ID1, then to R2||R3 and sends the request again; with Appendix B.1.2
 * the server then asks for an Echo before the request reaches the resource handler.
 *
 * Independent of libcoap, the reference implementation (ref/refoscore.c) watches the wire: every protected datagram either
 * endpoint emits is unprotected by the reference under {Master Secret, Master Salt, Sender/Recipient IDs as configured} +
 * the ID Context the kid context fields on the wire imply; and every security context found in either endpoint's context
 * chain after every event is re-derived with refoscore_derive() from the configured secret / salt / IDs and that context's
 * ID Context and compared byte for byte.
 *
 * Families:  faults  -- vx: all schedules with <= bound drop / duplicate deviations (default: FIFO delivery, timers when idle)
 *            tamper  -- vxp space "c14b2:tamper": for every configuration, every byte of the OSCORE option value and of the
 *                       ciphertext of every protected datagram of the fault-free exchange (positions recorded by a dry run):
 *                       a copy with one flipped bit is handed to the recipient just before (or just after) the genuine
 *                       datagram; the recipient must neither call a handler nor go on with the exchange (= answer with an
 *                       OSCORE protected message) unless the reference unprotects the modified copy as well
 *
 * Not judged (counted only): liveness after a duplicated datagram or a tampered copy -- e.g. a duplicated request #2 draws two
 * Echo challenges, the client answers the first one, the server silently empty-ACKs the mismatch and the Confirmable exchange
 * ends with neither response nor NACK (b2.con_exchanges_silent_after_duplicate).  C14 makes no liveness claim.
 */
#include "netsim.h"
#include "wire.h"
#include "refoscore.h"
#include <sys/mman.h>

static const uint8_t MS[16] = {1, 2, 3, 4, 5, 6, 7, 8, 9, 10, 11, 12, 13, 14, 15, 16};
static const uint8_t SALT[8] = {0x9e, 0x7c, 0xa9, 0x22, 0x23, 0x78, 0x63, 0x40};
static const uint8_t IDCTX[4] = {0x37, 0xcb, 0xf3, 0x21};
static const uint8_t APPTOK[4] = {0xb2, 0x5a, 0x00, 0x77};
static const char REQ_PAYLOAD[] = "b2-request-body";
static const char RESP_PAYLOAD[] = "b2-ok:resource";

enum { FAM_FAULT, FAM_TAMPER };
enum { IDS_1_1, IDS_C0, IDS_S0, IDS_N };
static const char *idsname[] = {"c01-s02", "cEMPTY-s02", "c01-sEMPTY"};

struct cfg {
  char name[160];
  int salt, idctx, ids, con, payload, b12;
  int fam, bound;
  int after; /* tamper family: the modified copy arrives after the genuine datagram instead of before it */
};

/* ---- shared counters (children are forked from main) ---- */
enum { SH_CTX_CHECKED, SH_REQ_VERIFIED, SH_RESP_VERIFIED, SH_TAMPERED, SH_TAMPER_REF_ACCEPTS, SH_COMPLETED, SH_NACKED, SH_ERRORED, SH_SILENT_NON, SH_SILENT_CON_DUP,
       SH_PLAIN_TO_HANDLER, SH_SRV_TWICE, SH_COMPLETED_AFTER_TAMPER, SH_N };
static volatile uint64_t *SH;
static int T_record;
static void
sh_add(int k, uint64_t v) {
  if (SH && !T_record) /* the recording runs of the tamper family do not count */
    __sync_fetch_and_add(&SH[k], v);
}

/* ---- per execution state ---- */
static struct cfg *C;
/* tamper family (in-process enumeration): which datagram / byte / bit is modified in this case; recording: the dry run that
 * lists the positions */
static int T_id = -1, T_off, T_bit, T_isopt;
struct tpos {
  int id, off, isopt;
};
static struct tpos *T_rec;
static int T_nrec, T_caprec;
#define OBS(...)                                                                                                                                \
  do {                                                                                                                                          \
    vx_observe(__VA_ARGS__);                                                                                                                    \
    if (C && C->fam == FAM_TAMPER && vx_in_replay())                                                                                            \
      vx_trace(__VA_ARGS__);                                                                                                                    \
  } while (0)
static coap_context_t *cc, *sc;
static coap_session_t *cs;
static coap_address_t srv_addr, cli_addr;
static const uint8_t *cid, *sid;
static size_t cidl, sidl;

struct wrec {
  int id, dir; /* dir 0: client -> server, 1: server -> client */
  uint8_t type, code, tok[8];
  size_t tkl;
  int has_osc, is_req;
  int has_kidctx, verified;
  int has_idctx;
  uint8_t idctx[REFOSCORE_MAX_IDCTX];
  size_t idctx_len;
  refoscore_reqbind_t bind;
  uint8_t icode;
  uint8_t ipayload[64];
  size_t iplen;
  int req; /* responses: index of the request record it is bound to */
  uint8_t r2[64]; /* verified B.2 step 2 response: the R2 its kid context carries */
  size_t r2len;
  char why[80];
};
#define MAXW 96
static struct wrec W[MAXW];
static int nW;
static struct wrec *cur; /* record of the datagram being handed over right now */
static int in_tamper;
static int tamper_done, tamper_srv_calls, tamper_cli_calls, tamper_protected_replies;
static char tamper_what[120];

static int srv_calls, cli_calls, cli_ok205, cli_err, cli_plain, nacks, foreign_tok, osc_events;
static int plain_errors;
static char plain_error_text[80];
static int faults_taken, drops_taken, dups_taken;
static int submitted;

/* distinct contexts already compared with the reference in this execution */
static uint64_t seen_ctx[64];
static int nseen_ctx;

static const char *
hx(const uint8_t *p, size_t n) {
  static char b[4][140];
  static int r;
  char *s = b[r++ & 3];
  if (!p || !n) {
    strcpy(s, "<>");
    return s;
  }
  vx_hex(s, 140, p, n > 64 ? 64 : n);
  return s;
}

/* strict CBOR byte string that fills the whole buffer */
static int
cbor_unwrap(const uint8_t *p, size_t n, const uint8_t **out, size_t *outl) {
  if (n < 1 || (p[0] >> 5) != 2)
    return 0;
  unsigned ai = p[0] & 31;
  size_t h, l;
  if (ai < 24) {
    h = 1;
    l = ai;
  } else if (ai == 24 && n >= 2) {
    h = 2;
    l = p[1];
  } else
    return 0;
  if (h + l != n)
    return 0;
  *out = p + h;
  *outl = l;
  return 1;
}

/* side: 0 = the client's context, 1 = the server's context */
static int
ref_ctx(int side, const uint8_t *idc, size_t idcl, int has, refoscore_ctx_t *out) {
  refoscore_params_t p;
  memset(&p, 0, sizeof p);
  p.master_secret = MS;
  p.master_secret_len = sizeof MS;
  p.master_salt = C->salt ? SALT : NULL;
  p.master_salt_len = C->salt ? sizeof SALT : 0;
  p.sender_id = side ? sid : cid;
  p.sender_id_len = side ? sidl : cidl;
  p.recipient_id = side ? cid : sid;
  p.recipient_id_len = side ? cidl : sidl;
  p.id_context = idc;
  p.id_context_len = idcl;
  p.has_id_context = has && idcl > 0;
  if (idcl > REFOSCORE_MAX_IDCTX)
    return REFOSCORE_E_INPUT;
  return refoscore_derive(&p, out);
}

/* the same message with the kid context taken out of the OSCORE option (the option value is not part of the AAD; which
 * ID Context the message belongs to is decided by the caller) */
static int
strip_kidctx(const refoscore_msg_t *in, refoscore_msg_t *out, refoscore_optval_t *v) {
  int oi = refoscore_msg_find(in, REFOSCORE_OPT_OSCORE);
  if (oi < 0)
    return REFOSCORE_E_NOT_OSCORE;
  int r = refoscore_optval_decode(refoscore_opt_val(in, oi), in->opts[oi].len, v);
  if (r != REFOSCORE_OK)
    return r;
  refoscore_optval_t w = *v;
  w.has_kidctx = 0;
  w.kidctx_len = 0;
  uint8_t buf[300];
  int n = refoscore_optval_encode(&w, buf, sizeof buf);
  if (n < 0)
    return n;
  refoscore_msg_init(out, in->code);
  for (int i = 0; i < in->nopts; i++) {
    if (i == oi)
      r = refoscore_msg_add_opt(out, REFOSCORE_OPT_OSCORE, buf, (size_t)n);
    else
      r = refoscore_msg_add_opt(out, in->opts[i].num, refoscore_opt_val(in, i), in->opts[i].len);
    if (r != REFOSCORE_OK)
      return r;
  }
  if (in->payload_len)
    return refoscore_msg_set_payload(out, refoscore_payload(in), in->payload_len);
  return REFOSCORE_OK;
}

static void
keep_inner(struct wrec *r, const refoscore_msg_t *m) {
  r->icode = m->code;
  r->iplen = m->payload_len > sizeof r->ipayload ? sizeof r->ipayload : m->payload_len;
  if (r->iplen)
    memcpy(r->ipayload, refoscore_payload(m), r->iplen);
}

/* Reference verdict for a protected datagram (requests by the server's view, responses by the client's view).
 * Fills r->verified / idctx / bind / inner.  `bytes` may be a modified copy (then r is a scratch record). */
static void
ref_judge(struct wrec *r, const uint8_t *bytes, size_t len) {
  static refoscore_msg_t outer, stripped, merged;
  refoscore_optval_t v;
  uint8_t type;
  r->verified = 0;
  snprintf(r->why, sizeof r->why, "not judged");
  int rc = refoscore_coap_decode(bytes, len, &outer, &type, NULL, r->tok, &r->tkl);
  if (rc != REFOSCORE_OK) {
    snprintf(r->why, sizeof r->why, "datagram: %s", refoscore_strerror(rc));
    return;
  }
  r->type = type;
  r->code = outer.code;
  r->is_req = outer.code >= 1 && outer.code < 32;
  r->has_osc = refoscore_msg_find(&outer, REFOSCORE_OPT_OSCORE) >= 0;
  if (!r->has_osc)
    return;
  rc = strip_kidctx(&outer, &stripped, &v);
  if (rc != REFOSCORE_OK) {
    snprintf(r->why, sizeof r->why, "OSCORE option: %s", refoscore_strerror(rc));
    return;
  }
  r->has_kidctx = v.has_kidctx;
  /* candidate ID Contexts */
  struct {
    uint8_t b[REFOSCORE_MAX_IDCTX + 260];
    size_t n;
    int has;
  } cand[4];
  int nc = 0;
  const uint8_t *un = NULL;
  size_t unl = 0;
  int wrapped = v.has_kidctx && cbor_unwrap(v.kidctx, v.kidctx_len, &un, &unl);
  if (r->is_req) {
    if (!v.has_kidctx) {
      cand[nc].n = 0;
      cand[nc++].has = 0;
    } else {
      if (wrapped) { /* Appendix B.2 in progress: kid context = bstr .cbor (ID1 or R2||R3) */
        memcpy(cand[nc].b, un, unl);
        cand[nc].n = unl;
        cand[nc++].has = 1;
      }
      memcpy(cand[nc].b, v.kidctx, v.kidctx_len);
      cand[nc].n = v.kidctx_len;
      cand[nc++].has = 1;
    }
  } else {
    /* the request this response answers: latest verified request with this token */
    r->req = -1;
    for (int i = nW - 1; i >= 0; i--)
      if (W[i].dir == 0 && W[i].is_req && W[i].verified && W[i].tkl == r->tkl && !memcmp(W[i].tok, r->tok, r->tkl)) {
        r->req = i;
        break;
      }
    if (r->req < 0) {
      snprintf(r->why, sizeof r->why, "no verified request with this token");
      return;
    }
    const struct wrec *q = &W[r->req];
    if (v.has_kidctx) { /* B.2 step 2: kid context R2, new ID Context R2 || (ID Context of the request) */
      const uint8_t *r2 = wrapped ? un : v.kidctx;
      size_t r2l = wrapped ? unl : v.kidctx_len;
      if (r2l + q->idctx_len <= REFOSCORE_MAX_IDCTX) {
        memcpy(cand[nc].b, r2, r2l);
        memcpy(cand[nc].b + r2l, q->idctx, q->idctx_len);
        cand[nc].n = r2l + q->idctx_len;
        cand[nc++].has = 1;
      }
    }
    memcpy(cand[nc].b, q->idctx, q->idctx_len);
    cand[nc].n = q->idctx_len;
    cand[nc++].has = q->has_idctx;
  }
  for (int k = 0; k < nc; k++) {
    refoscore_ctx_t ctx;
    if (ref_ctx(r->is_req ? 1 : 0, cand[k].b, cand[k].n, cand[k].has, &ctx) != REFOSCORE_OK)
      continue;
    if (r->is_req)
      rc = refoscore_unprotect_request(&ctx, &stripped, &merged, &r->bind, NULL);
    else
      rc = refoscore_unprotect_response(&ctx, &W[r->req].bind, &stripped, &merged, NULL);
    if (rc == REFOSCORE_OK) {
      r->verified = 1;
      if (!r->is_req && v.has_kidctx && cand[k].n > W[r->req].idctx_len) {
        r->r2len = cand[k].n - W[r->req].idctx_len;
        if (r->r2len > sizeof r->r2)
          r->r2len = 0;
        memcpy(r->r2, cand[k].b, r->r2len);
      }
      r->has_idctx = cand[k].has && cand[k].n > 0;
      r->idctx_len = cand[k].n;
      memcpy(r->idctx, cand[k].b, cand[k].n);
      keep_inner(r, &merged);
      snprintf(r->why, sizeof r->why, "ok");
      return;
    }
    snprintf(r->why, sizeof r->why, "%s", refoscore_strerror(rc));
  }
}

static struct wrec *
rec_of(const ns_dgram_t *d) {
  int key = d->orig >= 0 ? d->orig : d->id;
  for (int i = 0; i < nW; i++)
    if (W[i].id == key)
      return &W[i];
  return NULL;
}

static void
on_send(const ns_dgram_t *d) {
  int dir = ns_addr_host(&d->src) == ns_addr_host(&srv_addr);
  if (nW >= MAXW) {
    vx_fail("harness:too-many-datagrams", "more than %d datagrams in one exchange", MAXW);
    return;
  }
  struct wrec *r = &W[nW];
  memset(r, 0, sizeof *r);
  r->id = d->id;
  r->dir = dir;
  r->req = -1;
  ref_judge(r, d->data, d->len);
  nW++;
  OBS("t=%llu %s TX #%d type=%d code=%d.%02d tkl=%zu len=%zu osc=%d kidctx=%d ref=%s inner=%d.%02d", (unsigned long long)ns_now(),
             dir ? "S" : "C", d->id, r->type, r->code >> 5, r->code & 31, r->tkl, d->len, r->has_osc, r->has_kidctx,
             r->has_osc ? r->why : "-", r->verified ? r->icode >> 5 : 0, r->verified ? r->icode & 31 : 0);
  if (in_tamper && r->has_osc)
    tamper_protected_replies++;
  if (r->has_osc && !r->verified && !tamper_done) {
    char sig[120];
    snprintf(sig, sizeof sig, "b2:%s-unverifiable", dir ? "server-response" : "client-request");
    if (r->has_osc && ((dir && r->is_req) || (!dir && !r->is_req)))
      snprintf(sig, sizeof sig, "b2:unexpected-protected-%s-from-%s", r->is_req ? "request" : "response", dir ? "server" : "client");
    vx_fail(sig, "%s: datagram #%d (%s) %s cannot be unprotected by the reference under master secret / salt / ids as configured and the "
                 "ID Context implied by the kid context on the wire: %s",
            C->name, d->id, dir ? "server -> client" : "client -> server", hx(d->data, d->len), r->why);
  }
  if (r->has_osc && r->verified)
    sh_add(r->is_req ? SH_REQ_VERIFIED : SH_RESP_VERIFIED, 1);
  if (dir && !r->has_osc && r->code >= 0x80) {
    struct w_msg m;
    plain_errors++;
    if (w_parse(d->data, d->len, &m) && m.payload_len)
      snprintf(plain_error_text, sizeof plain_error_text, "%d.%02d \"%.*s\"", r->code >> 5, r->code & 31, (int)(m.payload_len > 40 ? 40 : m.payload_len),
               (const char *)m.payload);
    else
      snprintf(plain_error_text, sizeof plain_error_text, "%d.%02d", r->code >> 5, r->code & 31);
  }
}

static void
on_deliver(const ns_dgram_t *d) {
  cur = rec_of(d);
}

/* ---- Oracle 2: every security context either endpoint holds equals the independent derivation ---- */
static void
check_chain(int side, const char *when, int judge_idctx) {
  coap_context_t *ctx = side ? sc : cc;
  if (!ctx)
    return;
  const char *sn = side ? "server" : "client";
  int pos = 0;
  for (oscore_ctx_t *o = ctx->p_osc_ctx; o; o = o->next, pos++) {
    const uint8_t *idc = o->id_context ? o->id_context->s : NULL;
    size_t idcl = o->id_context ? o->id_context->length : 0;
    oscore_sender_ctx_t *s = o->sender_context;
    oscore_recipient_ctx_t *rc = o->recipient_chain;
    uint64_t h = vx_fnv(&side, sizeof side, VX_FNV0);
    h = vx_fnv(idc, idcl, h);
    if (s && s->sender_key)
      h = vx_fnv(s->sender_key->s, s->sender_key->length, h);
    if (s && s->sender_id)
      h = vx_fnv(s->sender_id->s, s->sender_id->length, h ^ 0x11);
    if (rc && rc->recipient_key)
      h = vx_fnv(rc->recipient_key->s, rc->recipient_key->length, h ^ 0x22);
    if (rc && rc->recipient_id)
      h = vx_fnv(rc->recipient_id->s, rc->recipient_id->length, h ^ 0x33);
    if (o->common_iv)
      h = vx_fnv(o->common_iv->s, o->common_iv->length, h ^ 0x44);
    int known = 0;
    for (int i = 0; i < nseen_ctx; i++)
      known |= seen_ctx[i] == h;
    if (known)
      continue;
    if (nseen_ctx < 64)
      seen_ctx[nseen_ctx++] = h;
    sh_add(SH_CTX_CHECKED, 1);
    char sig[120];
    const uint8_t *xs = side ? sid : cid, *xr = side ? cid : sid;
    size_t xsl = side ? sidl : cidl, xrl = side ? cidl : sidl;
    if (!s || !s->sender_id || s->sender_id->length != xsl || (xsl && memcmp(s->sender_id->s, xs, xsl)) || !rc || !rc->recipient_id ||
        rc->recipient_id->length != xrl || (xrl && memcmp(rc->recipient_id->s, xr, xrl)) || rc->next_recipient) {
      snprintf(sig, sizeof sig, "b2:derived-ctx-ids:%s", sn);
      vx_fail(sig, "%s %s: context #%d of the %s (ID Context %s) has Sender ID %s / Recipient ID %s, configured %s / %s", C->name, when, pos, sn,
              hx(idc, idcl), s && s->sender_id ? hx(s->sender_id->s, s->sender_id->length) : "-",
              rc && rc->recipient_id ? hx(rc->recipient_id->s, rc->recipient_id->length) : "-", hx(xs, xsl), hx(xr, xrl));
      continue;
    }
    refoscore_ctx_t ref;
    if (ref_ctx(side, idc, idcl, idc != NULL, &ref) != REFOSCORE_OK) {
      snprintf(sig, sizeof sig, "b2:derived-ctx-underivable:%s", sn);
      vx_fail(sig, "%s %s: the reference cannot derive a context for ID Context %s (%zu bytes)", C->name, when, hx(idc, idcl), idcl);
      continue;
    }
    const char *which = NULL;
    const uint8_t *got = NULL, *want = NULL;
    size_t gl = 0, wl = 0;
    if (!s->sender_key || s->sender_key->length != REFOSCORE_KEY_LEN || memcmp(s->sender_key->s, ref.sender_key, REFOSCORE_KEY_LEN)) {
      which = "sender-key";
      got = s->sender_key ? s->sender_key->s : NULL;
      gl = s->sender_key ? s->sender_key->length : 0;
      want = ref.sender_key;
      wl = REFOSCORE_KEY_LEN;
    } else if (!rc->recipient_key || rc->recipient_key->length != REFOSCORE_KEY_LEN ||
               memcmp(rc->recipient_key->s, ref.recipient_key, REFOSCORE_KEY_LEN)) {
      which = "recipient-key";
      got = rc->recipient_key ? rc->recipient_key->s : NULL;
      gl = rc->recipient_key ? rc->recipient_key->length : 0;
      want = ref.recipient_key;
      wl = REFOSCORE_KEY_LEN;
    } else if (!o->common_iv || o->common_iv->length != REFOSCORE_NONCE_LEN || memcmp(o->common_iv->s, ref.common_iv, REFOSCORE_NONCE_LEN)) {
      which = "common-iv";
      got = o->common_iv ? o->common_iv->s : NULL;
      gl = o->common_iv ? o->common_iv->length : 0;
      want = ref.common_iv;
      wl = REFOSCORE_NONCE_LEN;
    }
    if (which) {
      snprintf(sig, sizeof sig, "b2:derived-key-mismatch:%s:%s", sn, which);
      vx_fail(sig, "%s %s: context #%d of the %s, ID Context %s (%zu bytes), master salt %s (context holds %s): libcoap %s, RFC 8613 3.2.1 "
                   "derivation from the configured secret / salt / ids and this ID Context gives %s",
              C->name, when, pos, sn, hx(idc, idcl), idcl, C->salt ? "configured" : "absent",
              o->master_salt ? hx(o->master_salt->s, o->master_salt->length) : "none", hx(got, gl), hx(want, wl));
    }
    /* which ID Contexts may exist at all: the configured one and those under which the reference verified a datagram */
    if (!tamper_done && judge_idctx) {
      int ok = 0;
      if (!idc || !idcl)
        ok = 1;
      if (side == 1 && C->idctx && idcl == sizeof IDCTX && !memcmp(idc, IDCTX, idcl))
        ok = 1;
      for (int i = 0; i < nW && !ok; i++) {
        if (W[i].verified && W[i].has_idctx && W[i].idctx_len == idcl && !memcmp(W[i].idctx, idc, idcl))
          ok = 1;
        /* the client's R2 || R3 (R3: 8 fresh bytes of its own) exists before -- or, when the request has been answered in
         * the clear meanwhile, without -- a request under it on the wire */
        if (side == 0 && W[i].verified && W[i].r2len && idcl == W[i].r2len + 8 && !memcmp(W[i].r2, idc, W[i].r2len))
          ok = 1;
      }
      if (!ok) {
        snprintf(sig, sizeof sig, "b2:id-context-unexpected:%s", sn);
        vx_fail(sig, "%s %s: context #%d of the %s has ID Context %s (%zu bytes): neither the configured one nor one under which any datagram "
                     "on the wire verifies (expected ID1, R2||ID1 or R2||R3)",
                C->name, when, pos, sn, hx(idc, idcl), idcl);
      }
    }
  }
}

/* ---- handlers ---- */
static void
hnd(coap_resource_t *r, coap_session_t *s, const coap_pdu_t *req, const coap_string_t *q, coap_pdu_t *resp) {
  (void)r;
  (void)s;
  (void)q;
  size_t n = 0;
  const uint8_t *p = NULL;
  coap_get_data(req, &n, &p);
  int code = coap_pdu_get_code(req);
  srv_calls++;
  OBS("t=%llu SRV-HANDLER code=0.%02d payload=%zu cur=#%d", (unsigned long long)ns_now(), code, n, cur ? cur->id : -1);
  if (in_tamper) {
    tamper_srv_calls++;
  } else if (!cur || cur->dir != 0 || !cur->has_osc) {
    vx_fail("b2:handler:request-not-protected", "%s: the OSCORE-only resource handler ran for a datagram that carried no OSCORE option", C->name);
  } else if (!cur->verified) {
    vx_fail("b2:handler:unverifiable-request", "%s: the resource handler ran for datagram #%d which the reference cannot unprotect (%s)", C->name,
            cur->id, cur->why);
  } else if (cur->icode != code || cur->iplen != n || (n && memcmp(cur->ipayload, p, n))) {
    vx_fail("b2:handler:request-differs", "%s: handler saw code 0.%02d payload %s, the reference unprotects datagram #%d to code 0.%02d payload %s",
            C->name, code, hx(p, n), cur->id, cur->icode, hx(cur->ipayload, cur->iplen));
  }
  size_t want = C->payload ? sizeof REQ_PAYLOAD - 1 : 0;
  if (code != (C->payload ? COAP_REQUEST_CODE_PUT : COAP_REQUEST_CODE_GET) || n != want || (n && memcmp(p, REQ_PAYLOAD, n)))
    vx_fail("b2:handler:not-the-original-request", "%s: handler saw code 0.%02d payload %s, the application sent 0.%02d with %zu payload bytes", C->name,
            code, hx(p, n), C->payload ? 3 : 1, want);
  coap_pdu_set_code(resp, COAP_RESPONSE_CODE_CONTENT);
  coap_add_data(resp, sizeof RESP_PAYLOAD - 1, (const uint8_t *)RESP_PAYLOAD);
}

static coap_response_t
resp_hnd(coap_session_t *s, const coap_pdu_t *sent, const coap_pdu_t *rcv, const coap_mid_t mid) {
  (void)s;
  (void)sent;
  (void)mid;
  size_t n = 0;
  const uint8_t *p = NULL;
  coap_get_data(rcv, &n, &p);
  int code = coap_pdu_get_code(rcv);
  coap_bin_const_t t = coap_pdu_get_token(rcv);
  cli_calls++;
  OBS("t=%llu CLI-HANDLER code=%d.%02d payload=%zu token=%s cur=#%d", (unsigned long long)ns_now(), code >> 5, code & 31, n, hx(t.s, t.length),
             cur ? cur->id : -1);
  if (t.length != sizeof APPTOK || memcmp(t.s, APPTOK, sizeof APPTOK))
    foreign_tok++;
  if (in_tamper) {
    tamper_cli_calls++;
  } else if (!cur || cur->dir != 1) {
    vx_fail("b2:client-handler:no-datagram", "%s: response handler ran outside the delivery of a server datagram", C->name);
  } else if (!cur->has_osc) {
    cli_plain++;
  } else if (!cur->verified) {
    vx_fail("b2:client-handler:unverifiable-response", "%s: the response handler ran for datagram #%d which the reference cannot unprotect (%s)",
            C->name, cur->id, cur->why);
  } else if (cur->icode != code || cur->iplen != n || (n && memcmp(cur->ipayload, p, n))) {
    vx_fail("b2:client-handler:response-differs", "%s: handler saw %d.%02d payload %s, the reference unprotects datagram #%d to %d.%02d payload %s",
            C->name, code >> 5, code & 31, hx(p, n), cur->id, cur->icode >> 5, cur->icode & 31, hx(cur->ipayload, cur->iplen));
  }
  if (code == COAP_RESPONSE_CODE_CONTENT && n == sizeof RESP_PAYLOAD - 1 && !memcmp(p, RESP_PAYLOAD, n))
    cli_ok205++;
  else
    cli_err++;
  return COAP_RESPONSE_OK;
}

static void
nack_hnd(coap_session_t *s, const coap_pdu_t *sent, const coap_nack_reason_t reason, const coap_mid_t mid) {
  (void)s;
  (void)sent;
  (void)mid;
  nacks++;
  OBS("t=%llu CLI-NACK reason=%d", (unsigned long long)ns_now(), reason);
}

static int
event_hnd(coap_session_t *s, coap_event_t ev) {
  (void)s;
  if (ev >= COAP_EVENT_OSCORE_DECRYPTION_FAILURE && ev <= COAP_EVENT_OSCORE_DECODE_ERROR) {
    osc_events++;
    OBS("t=%llu CLI-EVENT 0x%x", (unsigned long long)ns_now(), ev);
  }
  return 0;
}

static coap_oscore_conf_t *
make_conf(int client) {
  char b[700];
  size_t k = 0;
  const uint8_t *s = client ? cid : sid, *r = client ? sid : cid;
  size_t sl = client ? cidl : sidl, rl = client ? sidl : cidl;
  k += (size_t)snprintf(b + k, sizeof b - k, "master_secret,hex,\"0102030405060708090a0b0c0d0e0f10\"\n");
  if (C->salt)
    k += (size_t)snprintf(b + k, sizeof b - k, "master_salt,hex,\"9e7ca92223786340\"\n");
  if (C->idctx)
    k += (size_t)snprintf(b + k, sizeof b - k, "id_context,hex,\"37cbf321\"\n");
  k += (size_t)snprintf(b + k, sizeof b - k, "sender_id,hex,\"");
  for (size_t i = 0; i < sl; i++)
    k += (size_t)snprintf(b + k, sizeof b - k, "%02x", s[i]);
  k += (size_t)snprintf(b + k, sizeof b - k, "\"\nrecipient_id,hex,\"");
  for (size_t i = 0; i < rl; i++)
    k += (size_t)snprintf(b + k, sizeof b - k, "%02x", r[i]);
  k += (size_t)snprintf(b + k, sizeof b - k, "\"\nreplay_window,integer,32\nrfc8613_b_1_2,bool,%s\nrfc8613_b_2,bool,true\n", C->b12 ? "true" : "false");
  coap_str_const_t cm = {k, (const uint8_t *)b};
  return coap_new_oscore_conf(cm, NULL, NULL, 0);
}

/* ---- tampering ---- */
static int
osc_positions(const uint8_t *b, size_t n, int *pos, int max, int *nopt) {
  struct w_msg m;
  int np = 0;
  *nopt = 0;
  if (!w_parse(b, n, &m))
    return 0;
  const struct w_opt *o = w_find(&m, 9);
  if (!o)
    return 0;
  for (size_t i = 0; i < o->len && np < max; i++)
    pos[np++] = (int)(o->val - b + (ptrdiff_t)i);
  *nopt = np;
  for (size_t i = 0; i < m.payload_len && np < max; i++)
    pos[np++] = (int)(m.payload - b + (ptrdiff_t)i);
  return np;
}

/* which field of the OSCORE option value (RFC 8613 6.1) byte k belongs to */
static const char *
optval_field(const uint8_t *v, size_t n, size_t k) {
  if (k == 0)
    return "flags";
  size_t piv = v[0] & 7, o = 1;
  if (k < o + piv)
    return "partial-iv";
  o += piv;
  if (v[0] & 0x10) {
    if (k == o)
      return "kidctx-length";
    size_t s = o < n ? v[o] : 0;
    o++;
    if (k == o && s)
      return "kidctx-cbor-head"; /* Appendix B.2: kid context = bstr .cbor (ID1 / R2 / R2||R3) */
    if (k < o + s)
      return "kidctx";
    o += s;
  }
  return "kid";
}

static void
inject_tampered(const ns_dgram_t *d, int p, int bit, int is_opt) {
  uint8_t *copy = malloc(d->len);
  memcpy(copy, d->data, d->len);
  copy[p] ^= (uint8_t)(1u << bit);
  struct wrec *g = rec_of(d);
  static struct wrec scratch;
  memset(&scratch, 0, sizeof scratch);
  scratch.dir = g ? g->dir : 0;
  scratch.req = -1;
  ref_judge(&scratch, copy, d->len);
  snprintf(tamper_what, sizeof tamper_what, "%s of datagram #%d (%s %d.%02d%s), byte %d bit %d", is_opt ? "OSCORE option value" : "ciphertext", d->id,
           scratch.dir ? "server->client" : "client->server", g ? g->code >> 5 : 0, g ? g->code & 31 : 0, g && g->has_kidctx ? " +kid context" : "", p,
           bit);
  OBS("   tamper: %s; reference: %s", tamper_what, scratch.verified ? "ACCEPTS" : scratch.why);
  sh_add(SH_TAMPERED, 1);
  tamper_done = 1;
  if (scratch.verified) {
    /* the flip has no meaning for RFC 8613 (the reference unprotects the copy to the same message): not judged */
    sh_add(SH_TAMPER_REF_ACCEPTS, 1);
    vxp_sample("%s: the reference unprotects the modified copy as well (%s): not judged", C->name, tamper_what);
    free(copy);
    return;
  }
  int s0 = srv_calls, c0 = cli_calls;
  coap_address_t src = d->src, dst = d->dst;
  in_tamper = 1;
  cur = NULL;
  ns_inject_now(&src, &dst, copy, d->len);
  in_tamper = 0;
  cur = NULL;
  free(copy);
  char region[60] = "ciphertext";
  if (is_opt) {
    struct w_msg m;
    const struct w_opt *o = w_parse(d->data, d->len, &m) ? w_find(&m, 9) : NULL;
    snprintf(region, sizeof region, "oscore-option:%s", o ? optval_field(o->val, o->len, (size_t)(d->data + p - o->val)) : "?");
  }
  const char *kind = !g ? "?" : g->is_req ? "request" : "response";
  char sig[140];
  if (srv_calls != s0 || cli_calls != c0) {
    snprintf(sig, sizeof sig, "b2:tamper-accepted:%s:%s:handler-called", region, kind);
    vx_fail(sig, "%s: one flipped bit in the %s reached the %s handler", C->name, tamper_what, srv_calls != s0 ? "resource" : "response");
  } else if (tamper_protected_replies) {
    snprintf(sig, sizeof sig, "b2:tamper-accepted:%s:%s:protected-answer", region, kind);
    vx_fail(sig, "%s: one flipped bit in the %s: the recipient went on with the exchange (it answered with an OSCORE protected message)", C->name,
            tamper_what);
  }
}

static int
step(void) {
  enum { EV_DELIVER, EV_TIMER, EV_DROP, EV_DUP };
  struct {
    int kind, idx;
  } ev[VX_MAXALT];
  uint8_t cost[VX_MAXALT];
  int n = 0;
  unsigned tmo = ns_prepare_all();
  int nf = ns_inflight_count();
  if (nf > 0)
    ev[n].kind = EV_DELIVER, ev[n++].idx = 0;
  else if (tmo && tmo < 300000 && ns_now() < 1500000)
    ev[n].kind = EV_TIMER, ev[n++].idx = (int)tmo;
  if (n == 0)
    return 0;
  cost[0] = 0;
  int budget = vx_budget_left();
  int pos[400], np = 0, nopt = 0;
  if (budget > 0 && C->fam == FAM_FAULT) {
    for (int j = 0; j < nf && j < 3 && n < VX_MAXALT - 2; j++) {
      ns_dgram_t *d = ns_inflight(j);
      if (d->id >= 40)
        continue;
      ev[n].kind = EV_DROP, ev[n].idx = j, cost[n++] = 1;
      if (ns_dups_done < 2)
        ev[n].kind = EV_DUP, ev[n].idx = j, cost[n++] = 1;
    }
  } else if (C->fam == FAM_TAMPER && nf > 0 && !tamper_done) {
    ns_dgram_t *d = ns_inflight(0);
    if (T_record && !d->from_raw) {
      np = osc_positions(d->data, d->len, pos, 400, &nopt);
      for (int k = 0; k < np; k++) {
        if (T_nrec == T_caprec)
          T_rec = realloc(T_rec, sizeof *T_rec * (size_t)(T_caprec = T_caprec ? 2 * T_caprec : 256));
        T_rec[T_nrec++] = (struct tpos){d->id, pos[k], k < nopt};
      }
    } else if (!T_record && d->id == T_id && !d->from_raw) {
      /* the modified copy is handed over just before the genuine datagram, or just after it */
      if (C->after) {
        ns_dgram_t keep = *d;
        keep.data = malloc(d->len);
        memcpy(keep.data, d->data, d->len);
        ns_deliver(0);
        cur = NULL;
        inject_tampered(&keep, T_off, T_bit, T_isopt);
        free(keep.data);
      } else
        inject_tampered(d, T_off, T_bit, T_isopt);
      cur = NULL;
      check_chain(0, "after a tampered copy", 1);
      check_chain(1, "after a tampered copy", 1);
      return 1;
    }
  }
  int c = vx_choose(n, cost, "step");
  switch (ev[c].kind) {
  case EV_DELIVER:
    ns_deliver(0);
    break;
  case EV_DUP:
    OBS("   dup dgram#%d", ns_inflight(ev[c].idx)->id);
    faults_taken++;
    dups_taken++;
    ns_duplicate(ev[c].idx);
    break;
  case EV_DROP:
    OBS("   drop dgram#%d", ns_inflight(ev[c].idx)->id);
    faults_taken++;
    drops_taken++;
    ns_drop(ev[c].idx);
    break;
  case EV_TIMER:
    ns_advance((uint64_t)ev[c].idx);
    break;
  }
  cur = NULL;
  if (c)
    vx_nontrivial();
  check_chain(0, "after an event", 1);
  check_chain(1, "after an event", 1);
  return 1;
}

static void
run(void *arg) {
  C = arg;
  ns_init();
  nW = 0;
  cur = NULL;
  in_tamper = tamper_done = tamper_srv_calls = tamper_cli_calls = tamper_protected_replies = 0;
  srv_calls = cli_calls = cli_ok205 = cli_err = cli_plain = nacks = foreign_tok = osc_events = plain_errors = faults_taken = drops_taken = dups_taken = submitted = 0;
  nseen_ctx = 0;
  plain_error_text[0] = 0;
  static const uint8_t id1[] = {0x01}, id2[] = {0x02};
  cid = id1, cidl = C->ids == IDS_C0 ? 0 : 1;
  sid = id2, sidl = C->ids == IDS_S0 ? 0 : 1;
  ns_on_send = on_send;
  ns_on_deliver = on_deliver;
  ns_addr(&srv_addr, 1, 5683);
  ns_addr(&cli_addr, 50, 40001);
  int failed_setup = 0;

  sc = coap_new_context(NULL);
  ns_register_ctx(sc);
  coap_context_set_block_mode(sc, COAP_BLOCK_USE_LIBCOAP | COAP_BLOCK_SINGLE_BODY);
  coap_oscore_conf_t *oc = make_conf(0);
  if (!oc || !coap_context_oscore_server(sc, oc)) {
    vx_fail("harness:server-oscore-conf", "%s: the server's OSCORE configuration was refused", C->name);
    failed_setup = 1;
  }
  coap_new_endpoint(sc, &srv_addr, COAP_PROTO_UDP);
  coap_resource_t *res = coap_resource_init(coap_make_str_const("r"), COAP_RESOURCE_FLAGS_OSCORE_ONLY);
  coap_register_request_handler(res, COAP_REQUEST_GET, hnd);
  coap_register_request_handler(res, COAP_REQUEST_PUT, hnd);
  coap_add_resource(sc, res);

  cc = coap_new_context(NULL);
  ns_register_ctx(cc);
  coap_context_set_block_mode(cc, COAP_BLOCK_USE_LIBCOAP | COAP_BLOCK_SINGLE_BODY);
  coap_register_response_handler(cc, resp_hnd);
  coap_register_nack_handler(cc, nack_hnd);
  coap_register_event_handler(cc, event_hnd);
  cs = NULL;
  if (!failed_setup) {
    coap_oscore_conf_t *cconf = make_conf(1);
    cs = cconf ? coap_new_client_session_oscore(cc, &cli_addr, &srv_addr, COAP_PROTO_UDP, cconf) : NULL;
    if (!cs) {
      vx_fail("harness:client-oscore-conf", "%s: the client's OSCORE configuration was refused", C->name);
      failed_setup = 1;
    }
  }
  /* (the client's first ID Context, ID1, is on the wire only after the first send: its membership is judged from then on) */
  check_chain(0, "after configuration", 0);
  check_chain(1, "after configuration", 1);
  if (!failed_setup) {
    coap_pdu_t *pdu = coap_new_pdu(C->con ? COAP_MESSAGE_CON : COAP_MESSAGE_NON, C->payload ? COAP_REQUEST_CODE_PUT : COAP_REQUEST_CODE_GET, cs);
    coap_add_token(pdu, sizeof APPTOK, APPTOK);
    coap_add_option(pdu, COAP_OPTION_URI_PATH, 1, (const uint8_t *)"r");
    if (C->payload)
      coap_add_data(pdu, sizeof REQ_PAYLOAD - 1, (const uint8_t *)REQ_PAYLOAD);
    coap_mid_t m = coap_send(cs, pdu);
    submitted = m != COAP_INVALID_MID;
    OBS("t=%llu SUBMIT -> %s", (unsigned long long)ns_now(), submitted ? "sent" : "refused");
    nseen_ctx = 0;
    check_chain(0, "after the first send", 1);
    int steps = 0;
    while (steps++ < 600 && step())
      ;
    if (steps >= 600)
      vx_fail("b2:horizon:steps", "%s: the exchange did not become quiescent within 600 events", C->name);
  }
  /* ---- verdicts ---- */
  if (!failed_setup) {
    char sig[160];
    if (!submitted)
      vx_fail("b2:send-refused", "%s: coap_send() refused the first request", C->name);
    if (foreign_tok && !tamper_done && !faults_taken)
      vx_fail("b2:fault-free:foreign-token", "%s: the response handler saw a token the application never used", C->name);
    if (!faults_taken && !tamper_done && submitted) {
      /* Oracle 1 */
      if (srv_calls != 1) {
        snprintf(sig, sizeof sig, "b2:fault-free:handler-calls=%d", srv_calls);
        vx_fail(sig, "%s: fault-free exchange: the resource handler ran %d times (2.05 at the client: %d, other responses %d, NACKs %d, plain "
                     "errors from the server: %d %s)",
                C->name, srv_calls, cli_ok205, cli_err, nacks, plain_errors, plain_error_text);
      }
      if (cli_ok205 != 1 || cli_err || nacks) {
        snprintf(sig, sizeof sig, "b2:fault-free:outcome:ok=%d:err=%d:nack=%d", cli_ok205, cli_err, nacks);
        vx_fail(sig, "%s: fault-free exchange: the response handler got %d x 2.05 with the expected payload, %d other responses, %d NACKs (handler "
                     "calls at the server: %d, plain errors from the server: %d %s)",
                C->name, cli_ok205, cli_err, nacks, srv_calls, plain_errors, plain_error_text);
      }
      if (plain_errors) {
        snprintf(sig, sizeof sig, "b2:fault-free:plain-error:%.4s", plain_error_text);
        vx_fail(sig, "%s: fault-free exchange: the server sent an unprotected error response %s", C->name, plain_error_text);
      }
      if (cli_plain)
        vx_fail("b2:fault-free:plain-response-to-handler", "%s: fault-free exchange: an unprotected response reached the response handler", C->name);
      if (osc_events)
        vx_fail("b2:fault-free:oscore-error-event", "%s: fault-free exchange: the client raised %d OSCORE failure events", C->name, osc_events);
    } else if (faults_taken && submitted) {
      /* Oracle 3: completes or ends explicitly (Confirmable requests) */
      if (cli_ok205 + cli_err + nacks == 0) {
        if (C->con && dups_taken)
          sh_add(SH_SILENT_CON_DUP, 1); /* see the note at main(): not a claim of C14 */
        else if (C->con) {
          snprintf(sig, sizeof sig, "b2:abandoned-silently:con:after-loss:b12=%d", C->b12);
          vx_fail(sig, "%s: after a lost / duplicated datagram the Confirmable exchange ended without response and without NACK at the client "
                       "(resource handler calls: %d)",
                  C->name, srv_calls);
        } else
          sh_add(SH_SILENT_NON, 1);
      }
      if (srv_calls > 1)
        sh_add(SH_SRV_TWICE, 1);
    }
    if (cli_ok205)
      sh_add(tamper_done ? SH_COMPLETED_AFTER_TAMPER : SH_COMPLETED, 1);
    else if (nacks)
      sh_add(SH_NACKED, 1);
    else if (cli_err)
      sh_add(SH_ERRORED, 1);
    sh_add(SH_PLAIN_TO_HANDLER, (uint64_t)cli_plain);
  }
  vx_outcome("%s srv=%d ok=%d err=%d nack=%d plainerr=%d", tamper_done ? "tampered" : faults_taken ? "faulted" : "fault-free", srv_calls, cli_ok205,
             cli_err, nacks, plain_errors);
  if (cs)
    coap_session_release(cs);
  ns_unregister_ctx(cc);
  coap_free_context(cc);
  cc = NULL;
  ns_unregister_ctx(sc);
  coap_free_context(sc);
  sc = NULL;
  ns_fini();
}

static struct cfg *cfgs;
static int ncfgs;
static void
add(struct cfg c) {
  cfgs = realloc(cfgs, sizeof *cfgs * (size_t)(ncfgs + 1));
  snprintf(c.name, sizeof c.name, "c14b2:%s:salt=%d,idctx=%d,ids=%s,%s,payload=%d,b12=%d%s,B=%d", c.fam == FAM_FAULT ? "faults" : "tamper", c.salt,
           c.idctx, idsname[c.ids], c.con ? "con" : "non", c.payload, c.b12, c.fam == FAM_TAMPER ? (c.after ? ",copy-after" : ",copy-before") : "",
           c.bound);
  cfgs[ncfgs++] = c;
}

/* ---- tamper family: in-process enumeration over (configuration, protected datagram, byte, bit) ---- */
struct tspace {
  struct cfg c;
  struct tpos *pos; /* every byte of an OSCORE option value / ciphertext of the fault-free exchange, in wire order */
  int npos;
  int bits;         /* 8: every bit; 1: one bit per byte (rotating) */
  uint64_t first;   /* index of this configuration's first case */
};
static struct tspace *TS;
static int nTS;
static uint64_t tamper_total;

static void
tamper_case(uint64_t idx, void *arg) {
  (void)arg;
  int k = 0;
  while (k + 1 < nTS && TS[k + 1].first <= idx)
    k++;
  struct tspace *t = &TS[k];
  uint64_t r = idx - t->first;
  int e = (int)(r / (unsigned)t->bits), bit = t->bits == 8 ? (int)(r % 8) : (e * 3 + 1) & 7;
  T_record = 0;
  T_id = t->pos[e].id;
  T_off = t->pos[e].off;
  T_isopt = t->pos[e].isopt;
  T_bit = bit;
  if (vx_in_replay())
    vx_trace("case %llu: %s, datagram #%d byte %d bit %d", (unsigned long long)idx, t->c.name, T_id, T_off, T_bit);
  run(&t->c);
  if (!tamper_done)
    vx_fail("harness:tamper-target-not-reached", "%s: datagram #%d of the recorded fault-free exchange did not come up again", t->c.name, T_id);
  vxp_count(0, 1);
  vxp_distinct(vx_fnv(&idx, sizeof idx, VX_FNV0));
  if (idx % 9973 == 17)
    vxp_sample("%s: %s -> rejected by the recipient (no handler call, no protected answer); the exchange %s afterwards", t->c.name, tamper_what,
               cli_ok205 ? "still completed" : "did not complete");
}

int
main(int argc, char **argv) {
  vx_main_init(argc, argv, "C14");
  int T = vx_is_thorough();
  int checks = 0;
  if (refoscore_selftest(&checks) < 0) {
    fprintf(stderr, "refoscore self-test failed\n");
    return 2;
  }
  SH = mmap(NULL, sizeof(uint64_t) * SH_N, PROT_READ | PROT_WRITE, MAP_SHARED | MAP_ANONYMOUS, -1, 0);
  if (SH == MAP_FAILED)
    SH = NULL;
  for (int salt = 0; salt < 2; salt++)
    for (int idctx = 0; idctx < 2; idctx++)
      for (int ids = 0; ids < IDS_N; ids++)
        for (int con = 1; con >= 0; con--)
          for (int payload = 0; payload < 2; payload++)
            for (int b12 = 1; b12 >= 0; b12--) {
              struct cfg c = {.salt = salt, .idctx = idctx, .ids = ids, .con = con, .payload = payload, .b12 = b12, .fam = FAM_FAULT, .bound = T ? 2 : 1};
              add(c);
            }
  vx_ev_rule("stage c14b2: libcoap client session + libcoap server context, both rfc8613_b_2=true, one request over netsim; product of master salt "
             "{absent, 8 bytes} x configured ID Context {absent, 4 bytes} x ids {01/02, empty client Sender ID, empty server Sender ID} x {CON, NON} x "
             "{GET, PUT with payload} x Appendix B.1.2 {on, off}; family faults: every schedule with <= bound (quick 1, thorough 2) drop / duplicate "
             "deviations of any of the first 40 datagrams, timers fire when the network is idle; family tamper (space c14b2:tamper): for every "
             "configuration and every protected datagram of its fault-free exchange, a copy with one flipped bit in the OSCORE option value or the "
             "ciphertext is handed to the recipient just before (or just after) the genuine datagram -- thorough: both orders, one bit per byte "
             "everywhere and every bit on 12 configurations (one per salt x ID Context x ids); quick: one bit per byte on every fourth "
             "configuration (every bit on two), copy-after on three configurations; reference = refoscore watching "
             "the wire + re-derivation of every context in either endpoint's chain after every event; non-trivial = a deviation was taken");
  vx_ev_assumption("ID1, R2, R3 and Echo values come from libcoap's PRNG hook (netsim's deterministic generator); the reference learns them from the kid "
                   "context fields on the wire only");
  vx_ev_assumption("both contexts use COAP_BLOCK_USE_LIBCOAP (libcoap re-sends the request in Appendix B.2 / B.1.2 from its lg_crcv copy, which exists "
                   "only in this mode, as in coap-client)");
  vx_ev_assumption("under loss / duplication only safety is judged (handlers run for reference-verifiable datagrams only) plus: after a lost datagram "
                   "a Confirmable exchange ends with a response or a NACK; after a duplicated datagram or a tampered copy liveness is not judged "
                   "(counted in b2.con_exchanges_silent_after_duplicate)");
  for (int i = 0; i < ncfgs; i++)
    if (vx_replay_if_match(cfgs[i].name, run, &cfgs[i]))
      return 0;
  if (!vx_replay_path()) {
    /* (before the recording runs below: the workers are forked from this process, the smaller the better) */
    struct vx_config *vcs = calloc((size_t)ncfgs, sizeof *vcs);
    void **args = calloc((size_t)ncfgs, sizeof *args);
    for (int i = 0; i < ncfgs; i++) {
      vcs[i] = (struct vx_config){.scenario = cfgs[i].name, .bound = cfgs[i].bound, .leakcheck = 1, .exec_timeout_s = 40};
      args[i] = &cfgs[i];
    }
    struct vx_scn_stats st;
    vx_explore_multi("c14b2:faults", vcs, args, ncfgs, run, 0, &st);
    free(vcs);
    free(args);
  }
  int nfault = ncfgs;
  /* tamper family: the positions come from a recording run of the fault-free exchange of each configuration */
  for (int i = 0; i < nfault; i++)
    for (int after = 0; after < 2; after++) {
      struct cfg c = cfgs[i];
      c.fam = FAM_TAMPER;
      c.bound = 0;
      c.after = after;
      /* every bit: thorough on one configuration per (salt, ID Context, ids) with rotating (type, payload, B.1.2); quick on
       * the two configurations with all features on / off.  Else one bit per byte (which bit rotates with the position) */
      int all_bits = T ? i % 8 == (i / 8) % 8 : (c.salt == c.idctx && c.idctx == c.payload && c.payload == c.b12 && c.con && c.ids == IDS_1_1 && !after);
      if (!T && !all_bits && (after ? i % 32 != 5 : i % 4 != 1))
        continue; /* quick: every fourth configuration, the copy-after order on three more */
      snprintf(c.name, sizeof c.name, "c14b2:tamper:salt=%d,idctx=%d,ids=%s,%s,payload=%d,b12=%d,%s", c.salt, c.idctx, idsname[c.ids],
               c.con ? "con" : "non", c.payload, c.b12, after ? "copy-after" : "copy-before");
      TS = realloc(TS, sizeof *TS * (size_t)(nTS + 1));
      struct tspace *t = &TS[nTS];
      t->c = c;
      T_record = 1;
      T_rec = NULL;
      T_nrec = T_caprec = 0;
      T_id = -1;
      run(&t->c);
      T_record = 0;
      t->pos = T_rec;
      t->npos = T_nrec;
      t->bits = all_bits ? 8 : 1;
      t->first = tamper_total;
      tamper_total += (uint64_t)t->npos * (unsigned)t->bits;
      if (t->npos)
        nTS++;
    }
  if (vxp_replay_if_match("c14b2:tamper", tamper_case, NULL))
    return 0;
  if (vx_replay_path()) {
    fprintf(stderr, "replay file does not match any scenario\n");
    return 2;
  }
  struct vxp_config xc = {.space = "c14b2:tamper", .total = tamper_total, .chunk = 64};
  struct vxp_stats xs;
  vxp_enumerate(&xc, tamper_case, NULL, &xs);
  vx_ev_add_states((long long)xs.done, (long long)xs.done, (long long)xs.done);
  vx_ev_add_evals((long long)xs.done, (long long)vxp_distinct_count());
  vx_ev_int("b2.fault_scenarios", ncfgs);
  vx_ev_int("b2.tamper_configurations", nTS);
  vx_ev_int("b2.tamper_cases", (long long)xs.done);
  if (SH) {
    vx_ev_int("b2.contexts_rederived_by_reference", (long long)SH[SH_CTX_CHECKED]);
    vx_ev_int("b2.protected_requests_verified_by_reference", (long long)SH[SH_REQ_VERIFIED]);
    vx_ev_int("b2.protected_responses_verified_by_reference", (long long)SH[SH_RESP_VERIFIED]);
    vx_ev_int("b2.tampered_copies", (long long)SH[SH_TAMPERED]);
    vx_ev_int("b2.tampered_copies_reference_accepts", (long long)SH[SH_TAMPER_REF_ACCEPTS]);
    vx_ev_int("b2.exchanges_completed", (long long)SH[SH_COMPLETED]);
    vx_ev_int("b2.exchanges_completed_after_tamper", (long long)SH[SH_COMPLETED_AFTER_TAMPER]);
    vx_ev_int("b2.exchanges_ended_in_nack", (long long)SH[SH_NACKED]);
    vx_ev_int("b2.exchanges_ended_in_error_response", (long long)SH[SH_ERRORED]);
    vx_ev_int("b2.non_exchanges_silent_after_loss", (long long)SH[SH_SILENT_NON]);
    vx_ev_int("b2.con_exchanges_silent_after_duplicate", (long long)SH[SH_SILENT_CON_DUP]);
    vx_ev_int("b2.plain_responses_to_handler_under_faults", (long long)SH[SH_PLAIN_TO_HANDLER]);
    vx_ev_int("b2.resource_handler_twice_under_faults", (long long)SH[SH_SRV_TWICE]);
  }
  return vx_finish();
}
