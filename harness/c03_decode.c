/* C03 -- Decoder accepts exactly the well-formed messages and reports what is on the wire.
 *
 * Exhaustive differential enumeration of libcoap's decoder (coap_pdu_parse and, for stream framing,
 * coap_pdu_parse_header_size / coap_pdu_parse_size used the way coap_read_session uses them) against
 * the independent reference decoder ref/refcodec.c (written from RFC 7252 / 8323 / 8974).
 *
 * Spaces (every one a separate vxp space; index -> case is a pure mixed-radix function):
 *   blind   <framing>-<alphabet>-len<a>-<b>   header variant x every tail of the given lengths
 *   mut     mut-corpus-<tier>                 every single-field mutation of every corpus message
 *   table   opt-len-table                     every option with defined limits at every limit boundary
 *                                             (incl. the 16-bit boundary 65536 + k)
 *
 * Oracle, every case:  accept_libcoap == accept_ref; on accept, type / code / mid (datagram framing),
 * token, the (number, value) sequence of the option iterator and the payload of coap_get_data equal the
 * reference decoding.  ASan/UBSan and libcoap's asserts are live in the asan stage; the input is an
 * exact-size heap copy and the target pdu is sized by the input (coap_pdu_init(0,0,0,len)).
 *
 * Signatures (one defect class = one signature; a different defect must not hide behind a known one):
 *   accept:<reference reject reason>[:detail]:<framing>   libcoap accepted what the reference rejects
 *       opt-number>65535:delta-ext-<HH>xx   one delta that is itself > 65535, named by its high extension byte
 *       opt-number>65535:sum                a sum of legal deltas
 *       opt-length-limit:opt<N>-below-min | opt<N>-above-max | len>=65536
 *   reject:<smallest part still rejected on its own>:<framing>   libcoap rejected a well-formed message
 *       found by re-encoding header+token / each option alone / the payload with the reference encoder:
 *       stream-length-prefix(len-<form>,tkl-<form>,frame-short|frame-long), token(..), header(code=..),
 *       opt<N>-len<L> (L at a limit) | opt<N>-len-inside-limits(<class>), opt-number-65535, opt-number(<class>),
 *       opt-no-limits(number-<class>,len-<class>), payload, combination(..)
 *   mismatch:<first differing field>:<framing>            both accept, accessors differ from the wire
 *       type code mid token-length token option-count option-number option-length option-value
 *       payload-length payload
 *   asan:/ubsan:/assert: signatures come from the vxp machinery.
 *
 * One vxp index is a batch of consecutive cases (see batch_fn); replaying an artefact re-runs the batch
 * and prints every failing case of it.
 */
#include <coap3/coap_internal.h>
#include "vx.h"
#include "refcodec.h"

#ifdef __SANITIZE_ADDRESS__
#define IS_ASAN 1
#else
#define IS_ASAN 0
#endif

/* ------------------------------------------------------------------------------------------ */
/* counters (accumulated locally, flushed at chunk ends: one shared atomic per case is too slow)  */

enum {
  CN_BOTH_ACCEPT = 0,
  CN_BOTH_REJECT,
  CN_UNSPECIFIED,
  CN_WITH_OPTIONS,
  CN_WITH_PAYLOAD,
  CN_SKIPPED,
  CN_CASES,
  CN_REASON0 = 8 /* + enum rc_reason */
};
static uint64_t lcnt[32];
static void
cnt(int i) {
  lcnt[i]++;
}
static void
cnt_flush(void) {
  for (int i = 0; i < 32; i++)
    if (lcnt[i]) {
      vxp_count(i, lcnt[i]);
      lcnt[i] = 0;
    }
}

/* ------------------------------------------------------------------------------------------ */
/* libcoap side                                                                                */

enum lc_status {
  LC_ACCEPT = 0,
  LC_PARSE_REJECT, /* coap_pdu_parse() returned 0 */
  LC_NO_BYTES,     /* nothing to hand to the decoder */
  LC_FRAME_SHORT,  /* stream reader would keep waiting for bytes: the string is not a complete message */
  LC_FRAME_LONG,   /* stream reader would cut the message before the end of the string */
  LC_TOO_BIG,      /* stream reader closes the session: size > COAP_DEFAULT_MAX_PDU_RX_SIZE */
  LC_NO_PDU        /* coap_pdu_init failed (harness problem) */
};
static const char *
lc_name(enum lc_status s) {
  static const char *n[] = {"accept", "parse-reject", "no-bytes", "frame-short", "frame-long", "too-big", "no-pdu"};
  return n[s];
}

static coap_proto_t
proto_of(enum rc_framing f) {
  return f == RC_UDP ? COAP_PROTO_UDP : f == RC_TCP ? COAP_PROTO_TCP : COAP_PROTO_WS;
}

/* `in` is an exact-size heap copy.  For TCP the length prefix is evaluated exactly like
 * coap_read_session does for one chunk: first byte -> coap_pdu_parse_header_size, then header +
 * extended token length bytes -> coap_pdu_parse_size, then that many more bytes belong to the message. */
static enum lc_status
lc_run(enum rc_framing f, const uint8_t *in, size_t len, coap_pdu_t **pdu_out) {
  coap_proto_t proto = proto_of(f);
  *pdu_out = NULL;
  if (len == 0)
    return LC_NO_BYTES;
  if (f == RC_TCP) {
    size_t hdr_size = coap_pdu_parse_header_size(proto, in);
    if (!hdr_size)
      return LC_PARSE_REJECT;
    size_t tkl = in[0] & 0x0f;
    size_t tok_ext_bytes = tkl == 13 ? 1 : tkl == 14 ? 2 : 0;
    if (len < hdr_size + tok_ext_bytes)
      return LC_FRAME_SHORT;
    size_t size = coap_pdu_parse_size(proto, in, hdr_size + tok_ext_bytes);
    if (size > COAP_DEFAULT_MAX_PDU_RX_SIZE)
      return LC_TOO_BIG;
    if (hdr_size + size > len)
      return LC_FRAME_SHORT;
    if (hdr_size + size < len)
      return LC_FRAME_LONG;
  }
  coap_pdu_t *pdu = coap_pdu_init(0, 0, 0, len);
  if (!pdu)
    return LC_NO_PDU;
  *pdu_out = pdu;
  return coap_pdu_parse(proto, in, len, pdu) ? LC_ACCEPT : LC_PARSE_REJECT;
}

/* ------------------------------------------------------------------------------------------ */
/* comparison                                                                                  */

static struct rc_msg g_rm;

static void
hexs(char *dst, size_t n, const uint8_t *p, size_t len) {
  size_t show = len > 40 ? 40 : len;
  vx_hex(dst, n > 16 ? n - 16 : n, p, show);
  if (show < len)
    snprintf(dst + strlen(dst), n - strlen(dst), "..(%zu)", len);
}

static const char *
nibclass(size_t v) {
  return v <= 12 ? "nibble" : v <= 268 ? "ext8" : "ext16";
}

/* one probe: encode with the reference, hand to libcoap */
static enum lc_status
probe_status(const struct rc_emsg *e) {
  size_t cap = 16 + e->token_len + e->payload_len;
  for (int i = 0; i < e->nopts; i++)
    cap += 5 + e->opts[i].len;
  uint8_t *b = malloc(cap);
  size_t n = rc_encode(e, b, cap);
  enum lc_status st = LC_NO_BYTES;
  if (n) {
    uint8_t *x = malloc(n);
    memcpy(x, b, n);
    coap_pdu_t *pdu;
    st = lc_run(e->framing, x, n, &pdu);
    coap_delete_pdu(pdu);
    free(x);
  }
  free(b);
  return st;
}

static const char *
lenform(uint64_t body) {
  return body <= 12 ? "nibble" : body <= 268 ? "ext8" : body <= 65804 ? "ext16" : "ext32";
}

/* 1 = accepted.  A probe that is mis-framed by the stream length prefix is a finding of its own. */
static int
probe(const struct rc_emsg *e, char *what, size_t n) {
  enum lc_status st = probe_status(e);
  if (st == LC_FRAME_SHORT || st == LC_FRAME_LONG || st == LC_TOO_BIG) {
    uint64_t body = e->payload_len ? 1 + e->payload_len : 0;
    for (int i = 0; i < e->nopts; i++)
      body += 1 + (e->opts[i].number > 12) + (e->opts[i].number > 268) + (e->opts[i].len > 12) + (e->opts[i].len > 268) +
              e->opts[i].len;
    snprintf(what, n, "stream-length-prefix(len-%s,tkl-%s,%s)", lenform(body), nibclass(e->token_len), lc_name(st));
    return 0;
  }
  what[0] = 0;
  return st == LC_ACCEPT;
}

/* libcoap rejected a message the reference calls well-formed: name the smallest part of it that is
 * still rejected on its own (header+token, one option, the payload), so that different defects get
 * different signatures. */
static void
diagnose_reject(enum rc_framing f, const uint8_t *bytes, enum lc_status ls, char *what, size_t n) {
  const struct rc_msg *m = &g_rm;
  if (ls == LC_FRAME_SHORT || ls == LC_FRAME_LONG || ls == LC_TOO_BIG) {
    snprintf(what, n, "stream-length-prefix(len-%s,tkl-%s,%s)",
             m->len_nibble <= 12 ? "nibble" : m->len_nibble == 13 ? "ext8" : m->len_nibble == 14 ? "ext16" : "ext32",
             nibclass(m->token_len), lc_name(ls));
    return;
  }
  struct rc_emsg e = {f, m->type, m->code, m->mid, bytes + m->token_off, m->token_len, NULL, 0, NULL, 0};
  if (!probe(&e, what, n)) {
    if (what[0])
      return;
    if (m->token_len)
      snprintf(what, n, "token(len-%s%s)", nibclass(m->token_len),
               m->token_len > 8 && m->token_len <= 12 ? ",9-12" : "");
    else
      snprintf(what, n, "header(code=%u.%02u)", m->code >> 5, m->code & 31);
    return;
  }
  e.token_len = 0;
  for (int i = 0; i < m->nopts; i++) {
    struct rc_eopt o = {m->opts[i].number, bytes + m->opts[i].val_off, m->opts[i].len};
    e.opts = &o;
    e.nopts = 1;
    if (!probe(&e, what, n)) {
      size_t mn, mx;
      if (what[0])
        return;
      if (rc_opt_limits(m->code, o.number, &mn, &mx)) {
        /* concrete length only at the limits, so that a whole broken length class is one signature */
        if (o.len == mn || o.len == mx)
          snprintf(what, n, "opt%u-len%zu%s", o.number, o.len, (m->code >> 5) == 7 ? "(signalling)" : "");
        else
          snprintf(what, n, "opt%u-len-inside-limits(%s)%s", o.number, nibclass(o.len),
                   (m->code >> 5) == 7 ? "(signalling)" : "");
      } else {
        /* is it the number alone (same option, empty value)? */
        struct rc_eopt o0 = {o.number, NULL, 0};
        char w2[120];
        e.opts = &o0;
        if (!probe(&e, w2, sizeof w2)) {
          if (o.number == 65535)
            snprintf(what, n, "opt-number-65535");
          else
            snprintf(what, n, "opt-number(%s)", nibclass(o.number));
        } else
          snprintf(what, n, "opt-no-limits(number-%s,len-%s)", nibclass(o.number), nibclass(o.len));
      }
      return;
    }
  }
  e.opts = NULL;
  e.nopts = 0;
  if (m->payload_len) {
    e.payload = bytes + m->payload_off;
    e.payload_len = m->payload_len;
    if (!probe(&e, what, n)) {
      if (!what[0])
        snprintf(what, n, "payload");
      return;
    }
  }
  snprintf(what, n, "combination(opts=%d,token-%s,payload=%d)", m->nopts > 3 ? 3 : m->nopts, nibclass(m->token_len),
           m->payload_len ? 1 : 0);
}

static int g_replay_verbose; /* replay: print every case of the batch, not only the failing ones */

static int
check_case(enum rc_framing f, const uint8_t *bytes, size_t len) {
  struct rc_msg *m = &g_rm;
  int failed = 1;
  const char *fr = rc_framing_name(f);
  char sig[200], hx[120];
  enum rc_reason rr = rc_decode(f, bytes, len, 0, m);

  uint8_t *copy = NULL;
  if (len) {
    copy = malloc(len); /* exact size, no terminator: overreads are visible to ASan */
    memcpy(copy, bytes, len);
  }
  coap_pdu_t *pdu = NULL;
  enum lc_status ls = lc_run(f, copy, len, &pdu);
  free(copy);

  cnt(CN_REASON0 + (int)rr);
  if (rr == RC_REF_CAPACITY) {
    hexs(hx, sizeof hx, bytes, len);
    vx_fail("harness:ref-capacity", "bytes=%s more than %d options", hx, RC_MAX_OPTS);
    goto out;
  }
  if (ls == LC_NO_PDU) {
    vx_fail("harness:pdu-init", "coap_pdu_init(0,0,0,%zu) failed", len);
    goto out;
  }

  if (ls != LC_ACCEPT) {
    if (rr != RC_OK) {
      cnt(CN_BOTH_REJECT);
      failed = 0;
    } else if (m->unspecified) {
      cnt(CN_UNSPECIFIED);
      failed = 0;
    } else {
      char what[120];
      diagnose_reject(f, bytes, ls, what, sizeof what);
      rc_decode(f, bytes, len, 0, m);
      hexs(hx, sizeof hx, bytes, len);
      snprintf(sig, sizeof sig, "reject:%s:%s", what, fr);
      vx_fail(sig, "bytes=%s len=%zu well-formed (code %u.%02u, token %zu, %d options, payload %zu) but libcoap: %s",
              hx, len, m->code >> 5, m->code & 31, m->token_len, m->nopts, m->payload_len, lc_name(ls));
    }
    goto out;
  }

  /* libcoap accepted */
  if (rr != RC_OK) {
    hexs(hx, sizeof hx, bytes, len);
    if (rr == RC_OPT_LEN_LIMIT) {
      if (m->bad_len >= 65536)
        snprintf(sig, sizeof sig, "accept:%s:len>=65536:%s", rc_reason_name(rr), fr);
      else
        snprintf(sig, sizeof sig, "accept:%s:opt%u-%s%s:%s", rc_reason_name(rr), m->bad_number,
                 m->bad_below_min ? "below-min" : "above-max", (m->code >> 5) == 7 ? "(signalling)" : "", fr);
      vx_fail(sig, "bytes=%s len=%zu libcoap accepted; reference rejects at offset %zu: option %u with length %zu", hx,
              len, m->err_off, m->bad_number, m->bad_len);
    } else if (rr == RC_OPT_NUM_OVER) {
      coap_opt_iterator_t oi;
      unsigned last = 0;
      coap_option_iterator_init(pdu, &oi, COAP_OPT_ALL);
      while (coap_option_next(&oi))
        last = oi.number;
      /* which arithmetic let it through: one delta that is itself > 65535 (named by the high extension
       * byte, the low byte only decides how far it wraps) or a sum of legal deltas */
      char how[24] = "sum";
      if ((bytes[m->err_off] >> 4) == 14 && m->err_off + 2 < len &&
          269u + bytes[m->err_off + 1] * 256u + bytes[m->err_off + 2] > 65535u)
        snprintf(how, sizeof how, "delta-ext-%02Xxx", bytes[m->err_off + 1]);
      snprintf(sig, sizeof sig, "accept:%s:%s:%s", rc_reason_name(rr), how, fr);
      vx_fail(sig,
              "bytes=%s len=%zu libcoap accepted; reference rejects at offset %zu: option number %u > 65535 "
              "(libcoap's iterator ends at number %u)",
              hx, len, m->err_off, m->bad_number, last);
    } else {
      snprintf(sig, sizeof sig, "accept:%s:%s", rc_reason_name(rr), fr);
      vx_fail(sig, "bytes=%s len=%zu libcoap accepted; reference rejects: %s at offset %zu", hx, len,
              rc_reason_name(rr), m->err_off);
    }
    goto out;
  }

  /* both accept: compare what the accessors report with the wire */
  {
    const char *field = NULL;
    char detail[160] = "";
    coap_bin_const_t tok = coap_pdu_get_token(pdu);
    if (f == RC_UDP && (int)coap_pdu_get_type(pdu) != (int)m->type) {
      field = "type";
      snprintf(detail, sizeof detail, "libcoap %d wire %d", (int)coap_pdu_get_type(pdu), m->type);
    } else if ((int)coap_pdu_get_code(pdu) != (int)m->code) {
      field = "code";
      snprintf(detail, sizeof detail, "libcoap %d wire %d", (int)coap_pdu_get_code(pdu), m->code);
    } else if (f == RC_UDP && (int)coap_pdu_get_mid(pdu) != (int)m->mid) {
      field = "mid";
      snprintf(detail, sizeof detail, "libcoap %d wire %d", (int)coap_pdu_get_mid(pdu), m->mid);
    } else if (tok.length != m->token_len) {
      field = "token-length";
      snprintf(detail, sizeof detail, "libcoap %zu wire %zu", tok.length, m->token_len);
    } else if (tok.length && memcmp(tok.s, bytes + m->token_off, tok.length)) {
      field = "token";
    } else {
      coap_opt_iterator_t oi;
      coap_opt_t *opt;
      int i = 0;
      coap_option_iterator_init(pdu, &oi, COAP_OPT_ALL);
      while ((opt = coap_option_next(&oi))) {
        if (i >= m->nopts) {
          field = "option-count";
          snprintf(detail, sizeof detail, "libcoap yields more than the %d options on the wire (extra number %u)",
                   m->nopts, oi.number);
          break;
        }
        const struct rc_opt *ro = &m->opts[i];
        uint32_t ol = coap_opt_length(opt);
        const uint8_t *ov = coap_opt_value(opt);
        if (oi.number != ro->number) {
          field = "option-number";
          snprintf(detail, sizeof detail, "option #%d: libcoap %u wire %u", i, oi.number, ro->number);
          break;
        }
        if (ol != ro->len) {
          field = "option-length";
          snprintf(detail, sizeof detail, "option #%d (%u): libcoap %u wire %zu", i, ro->number, ol, ro->len);
          break;
        }
        if (ol && (!ov || memcmp(ov, bytes + ro->val_off, ol))) {
          field = "option-value";
          snprintf(detail, sizeof detail, "option #%d (%u)", i, ro->number);
          break;
        }
        i++;
      }
      if (!field && i != m->nopts) {
        field = "option-count";
        snprintf(detail, sizeof detail, "libcoap yields %d options, wire has %d", i, m->nopts);
      }
      if (!field) {
        size_t dl = 0;
        const uint8_t *dp = NULL;
        int has = coap_get_data(pdu, &dl, &dp);
        if (!has)
          dl = 0;
        if (dl != m->payload_len) {
          field = "payload-length";
          snprintf(detail, sizeof detail, "libcoap %zu wire %zu", dl, m->payload_len);
        } else if (dl && memcmp(dp, bytes + m->payload_off, dl)) {
          field = "payload";
        }
      }
    }
    if (field) {
      hexs(hx, sizeof hx, bytes, len);
      snprintf(sig, sizeof sig, "mismatch:%s:%s", field, fr);
      vx_fail(sig, "bytes=%s len=%zu both accept, %s differs: %s", hx, len, field, detail);
    } else {
      failed = 0;
      cnt(CN_BOTH_ACCEPT);
      if (m->unspecified)
        cnt(CN_UNSPECIFIED);
      if (m->nopts)
        cnt(CN_WITH_OPTIONS);
      if (m->payload_len)
        cnt(CN_WITH_PAYLOAD);
      if (m->nopts || m->payload_len || m->token_len)
        vxp_distinct(vx_fnv(bytes, len, VX_FNV0 + (uint64_t)f));
    }
  }
out:
  coap_delete_pdu(pdu);
  if (vx_in_replay() && (failed || g_replay_verbose)) {
    char full[2100];
    vx_hex(full, sizeof full, bytes, len > 1000 ? 1000 : len);
    printf("case: framing=%s len=%zu bytes=%s\n      reference: %s%s (offset %zu)  libcoap: %s\n", fr, len, full,
           rc_reason_name(rr), m->unspecified ? " [unspecified]" : "", m->err_off, lc_name(ls));
    if (rr == RC_OK) {
      printf("      reference decoding: code %u.%02u token %zu bytes, %d options [", m->code >> 5, m->code & 31,
             m->token_len, m->nopts);
      for (int i = 0; i < m->nopts && i < 12; i++)
        printf("%s%u/%zu", i ? " " : "", m->opts[i].number, m->opts[i].len);
      printf("] payload %zu bytes\n", m->payload_len);
    }
  }
  return failed;
}

/* ------------------------------------------------------------------------------------------ */
/* blind spaces                                                                                */

static const uint8_t A20[20] = {0x00, 0x01, 0x0C, 0x0D, 0x0E, 0x0F, 0x10, 0x1F, 0xC0, 0xCD,
                                0xD0, 0xDD, 0xDE, 0xE0, 0xED, 0xEE, 0xF0, 0xFE, 0xFF, 0x41};
static const uint8_t TKLS[7] = {0, 1, 8, 9, 13, 14, 15};
static const uint8_t CODES[3] = {0x00, 0x01, 0x45};

enum {
  /* TCP */
  HM_FIT = 0, /* Len = tail bytes after the (nominal) token */
  HM_FIT_P1,  /* Len one too large */
  HM_FIT_M1,  /* Len one too small (two too large when fit is 0) */
  HM_RAW13,   /* first byte Dx/Ex/Fx followed by the raw tail: extended length and code come from the tail */
  HM_RAW14,
  HM_RAW15,
  /* WS: mode = Len nibble value */
};
struct hv {
  uint8_t tkl, code, mode;
};

enum { SK_BLIND, SK_MUT, SK_TABLE };
struct corpus;
struct space;
typedef int (*inner_fn)(uint64_t idx, const struct space *sp);
struct space {
  char name[80];
  int kind;
  unsigned mask; /* which (variant, tier) runs it: 1 asan-quick 2 asan-thorough 4 fast-quick 8 fast-thorough */
  enum rc_framing f;
  int alpha, minlen, maxlen;
  struct hv hv[64];
  int nhv;
  uint64_t per_variant, total; /* total = number of cases */
  uint64_t batch, nbatches, chunk; /* cases per vxp index, number of vxp indices, vxp indices per work unit */
  inner_fn inner;
  struct corpus *corp;
};

static size_t
build_blind(const struct space *sp, const struct hv *h, const uint8_t *tail, size_t tl, uint8_t *out) {
  size_t n = 0;
  if (sp->f == RC_UDP) {
    out[n++] = (uint8_t)(0x40 | h->tkl); /* Ver 1, CON */
    out[n++] = h->code;
    out[n++] = 0x12;
    out[n++] = 0x34;
  } else if (sp->f == RC_WS) {
    out[n++] = (uint8_t)((h->mode << 4) | h->tkl);
    out[n++] = h->code;
  } else if (h->mode >= HM_RAW13) {
    out[n++] = (uint8_t)(((13 + h->mode - HM_RAW13) << 4) | h->tkl);
  } else {
    size_t nominal = h->tkl <= 12 ? h->tkl : h->tkl == 13 ? 1 : h->tkl == 14 ? 2 : 0;
    size_t fit = tl > nominal ? tl - nominal : 0;
    size_t l = h->mode == HM_FIT ? fit : h->mode == HM_FIT_P1 ? fit + 1 : fit ? fit - 1 : fit + 2;
    n += rc_put_tcp_header(out, l, h->tkl, h->code);
  }
  memcpy(out + n, tail, tl);
  return n + tl;
}

static int
blind_case(uint64_t idx, const struct space *sp) {
  uint64_t v = idx / sp->per_variant, r = idx % sp->per_variant;
  int L = sp->minlen;
  uint64_t n = 1;
  for (int i = 0; i < L; i++)
    n *= (uint64_t)sp->alpha;
  while (r >= n) {
    r -= n;
    L++;
    n *= (uint64_t)sp->alpha;
  }
  uint8_t tail[8], msg[24];
  for (int i = 0; i < L; i++) {
    unsigned d = (unsigned)(r % (uint64_t)sp->alpha);
    r /= (uint64_t)sp->alpha;
    tail[i] = sp->alpha == 256 ? (uint8_t)d : A20[d];
  }
  size_t len = build_blind(sp, &sp->hv[v], tail, (size_t)L, msg);
  int failed = check_case(sp->f, msg, len);
  if (idx % 15485863 == 0) {
    char hx[64];
    vx_hex(hx, sizeof hx, msg, len);
    vxp_sample("case=%llu bytes=%s -> reference: %s", (unsigned long long)idx, hx, rc_reason_name(g_rm.reason));
  }
  return failed;
}

static void
space_blind(struct space *sp, const char *name, unsigned mask, enum rc_framing f, int alpha, int minlen, int maxlen) {
  memset(sp, 0, sizeof *sp);
  snprintf(sp->name, sizeof sp->name, "%s", name);
  sp->kind = SK_BLIND;
  sp->mask = mask;
  sp->f = f;
  sp->alpha = alpha;
  sp->minlen = minlen;
  sp->maxlen = maxlen;
}
static void
space_blind_done(struct space *sp) {
  uint64_t n = 1, per = 0;
  for (int i = 0; i < sp->minlen; i++)
    n *= (uint64_t)sp->alpha;
  for (int l = sp->minlen; l <= sp->maxlen; l++) {
    per += n;
    n *= (uint64_t)sp->alpha;
  }
  sp->per_variant = per;
  sp->total = per * (uint64_t)sp->nhv;
  sp->batch = 256;
}
static void
hv_product(struct space *sp, const uint8_t *modes, int nmodes) {
  for (int t = 0; t < 7; t++)
    for (int c = 0; c < 3; c++)
      for (int k = 0; k < nmodes; k++)
        sp->hv[sp->nhv++] = (struct hv){TKLS[t], CODES[c], modes[k]};
}

/* ------------------------------------------------------------------------------------------ */
/* corpus of valid encodings and its single-field mutations                                    */

enum { MK_HI, MK_LO, MK_BYTE, MK_INS, MK_DEL, MK_TRUNC };
struct mgroup {
  uint8_t kind;
  uint8_t fix; /* TCP: re-derive the length prefix after the mutation so that the framing stays consistent */
  uint32_t pos;
  uint32_t count;
};
struct cmsg {
  enum rc_framing f;
  uint8_t *bytes;
  size_t len;
  size_t code_off;
  struct mgroup *g;
  int ng;
  uint64_t first, nmut;
};
struct corpus {
  struct cmsg *m;
  int n, cap;
  uint64_t total;
  size_t maxlen;
};

struct osel {
  uint16_t number;
  uint16_t len;
};
struct oset {
  int n;
  struct osel o[3];
};

/* Option sets: sorted neighbours hit every delta class (0-12 / 13-268 / 269+), every length class, the
 * class boundaries (12|13, 268|269), the limits of the length table and the largest option number. */
static const struct oset OSETS_Q[] = {
    {0, {{0, 0}}},
    {1, {{11, 3}}},
    {2, {{11, 0}, {11, 12}}},
    {2, {{3, 13}, {15, 1}}},
    {2, {{12, 2}, {60, 4}}},
    {1, {{35, 269}}},
    {1, {{35, 268}}},
    {3, {{11, 1}, {292, 8}, {2049, 0}}},
    {1, {{65000, 0}}},
    {1, {{65535, 1}}},
    {3, {{1, 8}, {4, 8}, {5, 0}}},
    {3, {{6, 3}, {23, 3}, {28, 4}}},
    {1, {{13, 13}}},
    {1, {{268, 268}}},
    {1, {{269, 269}}},
    {3, {{252, 40}, {258, 1}, {292, 8}}},
    {3, {{16, 1}, {17, 2}, {20, 255}}},
    {3, {{7, 2}, {8, 255}, {9, 255}}},
    {3, {{14, 4}, {15, 255}, {39, 255}}},
    {2, {{65235, 0}, {65535, 0}}},
    {3, {{27, 3}, {2000, 300}, {2012, 13}}},
    {1, {{35, 1034}}},
    {2, {{2, 0}, {2, 12}}},
    {3, {{12, 0}, {12, 0}, {12, 0}}},
    {3, {{3, 1}, {4, 1}, {39, 1}}},
    {2, {{12, 1}, {281, 5}}},
};
/* thorough adds every ordered pair / neighbour combination of these singles */
static const struct osel SINGLES_T[] = {{1, 0},    {3, 255}, {4, 1},    {5, 0},     {6, 0},     {7, 0},
                                        {11, 255}, {12, 2},  {14, 0},   {17, 0},    {23, 1},    {35, 1},
                                        {60, 0},   {252, 1}, {258, 0},  {292, 0},   {300, 14},  {600, 270},
                                        {2, 13},   {9, 0},   {16, 1},   {20, 0},    {39, 255},  {65535, 0}};
static const size_t TOKLENS[] = {0, 1, 8, 12, 13, 269};
static const size_t PAYLENS[] = {0, 1, 13};

static void
grp(struct cmsg *c, int kind, int fix, size_t pos, size_t count) {
  c->g = realloc(c->g, sizeof(struct mgroup) * (size_t)(c->ng + 1));
  c->g[c->ng++] = (struct mgroup){(uint8_t)kind, (uint8_t)fix, (uint32_t)pos, (uint32_t)count};
  c->nmut += count;
}

/* The mutation plan of one valid message, from the field offsets the reference decoder reports. */
static void
plan_mutations(struct cmsg *c) {
  static struct rc_msg m;
  int tcp = c->f == RC_TCP;
  if (rc_decode(c->f, c->bytes, c->len, 0, &m) != RC_OK) {
    fprintf(stderr, "VX-HARNESS: corpus message is not well-formed for the reference: %s\n", rc_reason_name(m.reason));
    abort();
  }
  c->code_off = m.code_off;
  /* header bytes: every nibble -> 16 values (byte 0 low nibble = TKL 0..15; TCP byte 0 high nibble = Len nibble) */
  if (c->f == RC_UDP) {
    for (size_t p = 0; p < 4; p++) {
      grp(c, MK_HI, 0, p, 16);
      grp(c, MK_LO, 0, p, 16);
    }
  } else {
    grp(c, MK_HI, 0, 0, 16);
    grp(c, MK_LO, 0, 0, 16);
    if (tcp)
      grp(c, MK_LO, 1, 0, 16); /* TKL with the length prefix kept consistent */
    for (size_t p = 1; p <= (size_t)m.lenext_n; p++)
      grp(c, MK_BYTE, 0, p, 256); /* TCP extended length bytes */
    grp(c, MK_HI, 0, m.code_off, 16);
    grp(c, MK_LO, 0, m.code_off, 16);
  }
  /* extended token length bytes */
  for (size_t p = m.tklext_off; p < m.tklext_off + m.tklext_n; p++) {
    grp(c, MK_BYTE, 0, p, 256);
    if (tcp)
      grp(c, MK_BYTE, 1, p, 256);
  }
  /* option headers */
  for (int i = 0; i < m.nopts; i++) {
    const struct rc_opt *o = &m.opts[i];
    grp(c, MK_HI, 0, o->hdr_off, 16);
    grp(c, MK_LO, 0, o->hdr_off, 16);
    for (size_t p = o->hdr_off + 1; p < o->val_off; p++)
      grp(c, MK_BYTE, 0, p, 256);
  }
  /* payload marker inserted at every option boundary (start of every option, end of options), removed */
  if (m.code != 0 || c->len > m.opts_off) {
    for (int i = 0; i < m.nopts; i++) {
      grp(c, MK_INS, 0, m.opts[i].hdr_off, 1);
      if (tcp)
        grp(c, MK_INS, 1, m.opts[i].hdr_off, 1);
    }
  }
  grp(c, MK_INS, 0, m.opts_end, 1);
  if (tcp)
    grp(c, MK_INS, 1, m.opts_end, 1);
  if (m.has_marker) {
    grp(c, MK_DEL, 0, m.opts_end, 1);
    if (tcp)
      grp(c, MK_DEL, 1, m.opts_end, 1);
  }
  /* truncation to every shorter length */
  grp(c, MK_TRUNC, 0, 0, c->len);
  if (tcp)
    grp(c, MK_TRUNC, 1, 0, c->len);
}

static void
corpus_add(struct corpus *C, enum rc_framing f, uint8_t type, uint8_t code, uint16_t mid, size_t toklen,
           const struct osel *os, int nos, size_t paylen, unsigned salt) {
  static uint8_t tok[400], pay[32], vals[3][1100], enc[4096];
  struct rc_eopt eo[3];
  for (size_t i = 0; i < toklen; i++)
    tok[i] = A20[(i * 7 + salt) % 20];
  for (size_t i = 0; i < paylen; i++)
    pay[i] = A20[(i * 3 + salt + 5) % 20];
  for (int k = 0; k < nos; k++) {
    for (size_t i = 0; i < os[k].len; i++)
      vals[k][i] = A20[(i * 11 + salt + 3 * (unsigned)k) % 20];
    eo[k] = (struct rc_eopt){os[k].number, vals[k], os[k].len};
  }
  rc_sort_opts(eo, nos);
  struct rc_emsg e = {f, type, code, mid, tok, toklen, eo, nos, pay, paylen};
  size_t n = rc_encode(&e, enc, sizeof enc);
  if (!n) {
    fprintf(stderr, "VX-HARNESS: corpus message cannot be encoded\n");
    abort();
  }
  if (C->n == C->cap) {
    C->cap = C->cap ? C->cap * 2 : 256;
    C->m = realloc(C->m, sizeof(struct cmsg) * (size_t)C->cap);
  }
  struct cmsg *c = &C->m[C->n++];
  memset(c, 0, sizeof *c);
  c->f = f;
  c->bytes = malloc(n);
  memcpy(c->bytes, enc, n);
  c->len = n;
  plan_mutations(c);
  c->first = C->total;
  C->total += c->nmut;
  if (n > C->maxlen)
    C->maxlen = n;
}

static struct corpus *
corpus_build(int thorough) {
  struct corpus *C = calloc(1, sizeof *C);
  unsigned salt = 0;
  for (int f = 0; f < 3; f++) {
    /* Empty message */
    corpus_add(C, (enum rc_framing)f, 0, 0, 0x1234, 0, NULL, 0, 0, salt++);
    for (size_t s = 0; s < sizeof OSETS_Q / sizeof OSETS_Q[0]; s++)
      for (size_t t = 0; t < sizeof TOKLENS / sizeof TOKLENS[0]; t++)
        for (size_t p = 0; p < sizeof PAYLENS / sizeof PAYLENS[0]; p++) {
          salt++;
          corpus_add(C, (enum rc_framing)f, (uint8_t)(salt & 3), (salt & 4) ? 0x45 : 0x01, (uint16_t)(0x1234 + salt * 257),
                     TOKLENS[t], OSETS_Q[s].o, OSETS_Q[s].n, PAYLENS[p], salt);
        }
    if (f != RC_UDP) {
      /* signalling messages with their own option tables (RFC 8323 5.3-5.6, RFC 8974) */
      static const struct osel csm[3] = {{2, 4}, {4, 0}, {6, 3}};
      static const struct osel pong[1] = {{2, 0}};
      static const struct osel rel[2] = {{2, 255}, {4, 3}};
      static const struct osel abrt[1] = {{2, 2}};
      for (size_t t = 0; t < 2; t++) {
        corpus_add(C, (enum rc_framing)f, 0, 0xE1, 0, TOKLENS[t], csm, 3, 0, salt++);
        corpus_add(C, (enum rc_framing)f, 0, 0xE2, 0, TOKLENS[t], pong, 1, 0, salt++);
        corpus_add(C, (enum rc_framing)f, 0, 0xE3, 0, TOKLENS[t], pong, 1, 0, salt++);
        corpus_add(C, (enum rc_framing)f, 0, 0xE4, 0, TOKLENS[t], rel, 2, 0, salt++);
        corpus_add(C, (enum rc_framing)f, 0, 0xE5, 0, TOKLENS[t], abrt, 1, 13, salt++);
      }
    }
    if (thorough) {
      size_t ns = sizeof SINGLES_T / sizeof SINGLES_T[0];
      for (size_t a = 0; a < ns; a++)
        for (size_t b = a; b < ns; b++)
          for (size_t t = 0; t < sizeof TOKLENS / sizeof TOKLENS[0]; t++)
            for (size_t p = 0; p < sizeof PAYLENS / sizeof PAYLENS[0]; p++) {
              struct osel two[2] = {SINGLES_T[a], SINGLES_T[b]};
              salt++;
              corpus_add(C, (enum rc_framing)f, (uint8_t)(salt & 3), (salt & 4) ? 0x45 : 0x02,
                         (uint16_t)(salt * 263), TOKLENS[t], two, a == b ? 1 : 2, PAYLENS[p], salt);
            }
    }
  }
  return C;
}

/* TCP: rebuild the length prefix for the mutated bytes (generator logic, not part of the oracle):
 * Len := bytes after the code byte minus the token the (mutated) TKL field announces. */
static size_t
tcp_reframe(const uint8_t *m, size_t len, size_t code_off, uint8_t *out) {
  if (len < code_off + 1)
    return 0;
  unsigned tkl = m[0] & 15;
  const uint8_t *R = m + code_off + 1;
  size_t rl = len - code_off - 1, tb;
  if (tkl <= 12)
    tb = tkl;
  else if (tkl == 13) {
    if (rl < 1)
      return 0;
    tb = 1 + 13 + (size_t)R[0];
  } else if (tkl == 14) {
    if (rl < 2)
      return 0;
    tb = 2 + 269 + (size_t)R[0] * 256 + R[1];
  } else
    tb = 0;
  if (rl < tb)
    return 0;
  size_t hn = rc_put_tcp_header(out, rl - tb, (uint8_t)tkl, m[code_off]);
  memcpy(out + hn, R, rl);
  return hn + rl;
}

static int
mut_case(uint64_t idx, const struct space *sp) {
  const struct corpus *C = sp->corp;
  int failed = 0;
  /* message: last one with first <= idx */
  int lo = 0, hi = C->n - 1;
  while (lo < hi) {
    int mid = (lo + hi + 1) / 2;
    if (C->m[mid].first <= idx)
      lo = mid;
    else
      hi = mid - 1;
  }
  const struct cmsg *c = &C->m[lo];
  uint64_t r = idx - c->first;
  int gi = 0;
  while (r >= c->g[gi].count) {
    r -= c->g[gi].count;
    gi++;
  }
  const struct mgroup *g = &c->g[gi];
  static uint8_t *buf, *buf2;
  if (!buf) {
    buf = malloc(C->maxlen + 16);
    buf2 = malloc(C->maxlen + 16);
  }
  size_t n = c->len;
  memcpy(buf, c->bytes, n);
  switch (g->kind) {
  case MK_HI:
    buf[g->pos] = (uint8_t)((r << 4) | (buf[g->pos] & 15));
    break;
  case MK_LO:
    buf[g->pos] = (uint8_t)((buf[g->pos] & 0xF0) | r);
    break;
  case MK_BYTE:
    buf[g->pos] = (uint8_t)r;
    break;
  case MK_INS:
    memmove(buf + g->pos + 1, buf + g->pos, n - g->pos);
    buf[g->pos] = 0xFF;
    n++;
    break;
  case MK_DEL:
    memmove(buf + g->pos, buf + g->pos + 1, n - g->pos - 1);
    n--;
    break;
  case MK_TRUNC:
    n = (size_t)r;
    break;
  }
  const uint8_t *out = buf;
  int skipped = 0;
  if (g->fix) {
    size_t n2 = tcp_reframe(buf, n, c->code_off, buf2);
    if (!n2)
      skipped = 1;
    out = buf2;
    n = n2;
  }
  if (skipped)
    cnt(CN_SKIPPED);
  else
    failed = check_case(c->f, out, n);
  if (vx_in_replay() && (failed || g_replay_verbose)) {
    static const char *kn[] = {"high nibble", "low nibble", "byte", "insert 0xFF", "delete marker", "truncate to"};
    char hx[2100];
    vx_hex(hx, sizeof hx, c->bytes, c->len > 1000 ? 1000 : c->len);
    printf("      corpus message #%d (%s, %zu bytes): %s\n      mutation: %s%s at offset %u value %llu%s\n", lo,
           rc_framing_name(c->f), c->len, hx, kn[g->kind], g->fix ? " (length prefix re-derived)" : "", g->pos,
           (unsigned long long)r, skipped ? " -- not applicable, skipped" : "");
  }
  if (idx % 1000003 == 0 && !skipped) {
    char hx[100];
    hexs(hx, sizeof hx, out, n);
    vxp_sample("case=%llu corpus#%d kind=%d pos=%u val=%llu bytes=%s -> reference: %s", (unsigned long long)idx, lo,
               g->kind, g->pos, (unsigned long long)r, hx, rc_reason_name(g_rm.reason));
  }
  return failed;
}

/* ------------------------------------------------------------------------------------------ */
/* option length table: every option with defined limits at every boundary                     */

struct tcase {
  uint8_t code;
  uint32_t number;
  size_t len;
};
static struct tcase *g_tc;
static uint64_t g_ntc;
#define TABLE_VARIANTS 12 /* framing(3) x token{0,1} x payload{0,1} */

static void
tc_add(uint8_t code, uint32_t number, size_t len) {
  if (len > 65804)
    return;
  for (uint64_t i = 0; i < g_ntc; i++)
    if (g_tc[i].code == code && g_tc[i].number == number && g_tc[i].len == len)
      return;
  g_tc = realloc(g_tc, sizeof(struct tcase) * (g_ntc + 1));
  g_tc[g_ntc++] = (struct tcase){code, number, len};
}
static void
table_build(void) {
  static const uint8_t codes[] = {0x01, 0x45, 0xE1, 0xE2, 0xE3, 0xE4, 0xE5};
  for (size_t c = 0; c < sizeof codes; c++)
    for (uint32_t num = 0; num <= 300; num++) {
      size_t mn, mx;
      int has = rc_opt_limits(codes[c], num, &mn, &mx);
      /* signalling codes: defined options only (odd unknown ones are "unspecified"); base codes: the
       * neighbours without limits too, they must be accepted at any length */
      if (!has && ((codes[c] >> 5) == 7 ? num != 8 : (num != 2 && num != 10 && num != 13 && num != 299)))
        continue;
      if (!has) {
        mn = 0;
        mx = 12;
      }
      size_t ls[] = {0,          1,          mn ? mn - 1 : 0, mn,         mn + 1,          mx ? mx - 1 : 0, mx,
                     mx + 1,     12,         13,              268,        269,             270,             65535,
                     65536,      65537,      65536 + mn,      65536 + mx, 65536 + mx + 1,  65804};
      for (size_t i = 0; i < sizeof ls / sizeof ls[0]; i++)
        tc_add(codes[c], num, ls[i]);
    }
}
static int
table_case(uint64_t idx, const struct space *sp) {
  int failed = 0;
  (void)sp;
  const struct tcase *t = &g_tc[idx / TABLE_VARIANTS];
  unsigned v = (unsigned)(idx % TABLE_VARIANTS);
  enum rc_framing f = (enum rc_framing)(v % 3);
  int with_tok = (v / 3) & 1, with_pay = (v / 6) & 1;
  uint8_t *val = malloc(t->len + 1), *enc = malloc(t->len + 32);
  for (size_t i = 0; i < t->len; i++)
    val[i] = (uint8_t)('a' + i % 23);
  struct rc_eopt o = {t->number, val, t->len};
  uint8_t tok = 0x77;
  struct rc_emsg e = {f, 1, t->code, 0x4321, &tok, with_tok ? 1 : 0, &o, 1, (const uint8_t *)"p", with_pay ? 1 : 0};
  size_t n = rc_encode(&e, enc, t->len + 32);
  if (n && !((t->code >> 5) == 7 && f == RC_UDP))
    failed = check_case(f, enc, n);
  else
    cnt(CN_SKIPPED);
  if (idx % 997 == 0 && n)
    vxp_sample("case=%llu %s code=%u.%02u option %u length %zu -> reference: %s", (unsigned long long)idx,
               rc_framing_name(f), t->code >> 5, t->code & 31, t->number, t->len, rc_reason_name(g_rm.reason));
  free(val);
  free(enc);
  return failed;
}

/* ------------------------------------------------------------------------------------------ */
/* One vxp index = a batch of consecutive cases (the per-index bookkeeping of the enumerator is shared
 * memory traffic; amortising it over a batch is what lets 16 workers scale).  index -> cases is still a
 * pure function: batch b = cases [b*batch, (b+1)*batch). */
static void
batch_fn(uint64_t b, void *arg) {
  const struct space *sp = arg;
  uint64_t lo = b * sp->batch, hi = lo + sp->batch;
  int nf = 0;
  if (hi > sp->total)
    hi = sp->total;
  for (uint64_t i = lo; i < hi; i++)
    nf += sp->inner(i, sp);
  lcnt[CN_CASES] += hi - lo;
  if ((b + 1) % sp->chunk == 0 || b + 1 == sp->nbatches)
    cnt_flush();
  if (vx_in_replay())
    printf("batch %llu of space %s = cases %llu..%llu: %d failing\n", (unsigned long long)b, sp->name,
           (unsigned long long)lo, (unsigned long long)hi - 1, nf);
}

/* ------------------------------------------------------------------------------------------ */

#define M_AQ 1u
#define M_AT 2u
#define M_FQ 4u
#define M_FT 8u

static struct space spaces[48];
static int nspaces;

static void
define_spaces(void) {
  static const uint8_t m_fit[] = {HM_FIT};
  static const uint8_t m_off[] = {HM_FIT_P1, HM_FIT_M1};
  static const uint8_t m_zero[] = {0};
  static const uint8_t m_wsbad[] = {1, 13, 15};
  static const char *fn[3] = {"udp", "tcp", "ws"};
  struct space *sp;

  /* corpus mutations: quick corpus everywhere; thorough corpus in thorough */
  sp = &spaces[nspaces++];
  memset(sp, 0, sizeof *sp);
  snprintf(sp->name, sizeof sp->name, "mut-corpus-q");
  sp->kind = SK_MUT;
  sp->mask = M_AQ | M_AT;
  sp = &spaces[nspaces++];
  memset(sp, 0, sizeof *sp);
  snprintf(sp->name, sizeof sp->name, "mut-corpus-t");
  sp->kind = SK_MUT;
  sp->mask = M_AT;

  sp = &spaces[nspaces++];
  memset(sp, 0, sizeof *sp);
  snprintf(sp->name, sizeof sp->name, "opt-len-table");
  sp->kind = SK_TABLE;
  sp->mask = M_AQ | M_AT;

  /* blind tails.  The declared spaces (all 256 values up to length 3, boundary alphabet 4..5 / 4..6) run
   * completely on the fast stage in both tiers and under asan in thorough; asan-quick runs the short
   * part of every space plus length 3 behind the one header where all three bytes are options. */
  for (int f = 0; f < 3; f++) {
    char nm[80];
    const uint8_t *main_modes = f == RC_TCP ? m_fit : m_zero;
    snprintf(nm, sizeof nm, "%s-256-len0-2", fn[f]);
    sp = &spaces[nspaces++];
    space_blind(sp, nm, M_AQ, (enum rc_framing)f, 256, 0, 2);
    hv_product(sp, main_modes, 1);
    space_blind_done(sp);
    snprintf(nm, sizeof nm, "%s-256-len3-tkl0-get", fn[f]);
    sp = &spaces[nspaces++];
    space_blind(sp, nm, M_AQ, (enum rc_framing)f, 256, 3, 3);
    sp->hv[sp->nhv++] = (struct hv){0, 0x01, main_modes[0]};
    space_blind_done(sp);
    snprintf(nm, sizeof nm, "%s-256-len0-3", fn[f]);
    sp = &spaces[nspaces++];
    space_blind(sp, nm, M_FQ | M_FT | M_AT, (enum rc_framing)f, 256, 0, 3);
    hv_product(sp, main_modes, 1);
    space_blind_done(sp);
    snprintf(nm, sizeof nm, "%s-a20-len3-4", fn[f]);
    sp = &spaces[nspaces++];
    space_blind(sp, nm, M_AQ, (enum rc_framing)f, 20, 3, 4);
    hv_product(sp, main_modes, 1);
    space_blind_done(sp);
    snprintf(nm, sizeof nm, "%s-a20-len4-5", fn[f]);
    sp = &spaces[nspaces++];
    space_blind(sp, nm, M_FQ | M_AT, (enum rc_framing)f, 20, 4, 5);
    hv_product(sp, main_modes, 1);
    space_blind_done(sp);
    snprintf(nm, sizeof nm, "%s-a20-len4-6", fn[f]);
    sp = &spaces[nspaces++];
    space_blind(sp, nm, M_FT, (enum rc_framing)f, 20, 4, 6);
    hv_product(sp, main_modes, 1);
    space_blind_done(sp);
  }
  /* inconsistent / raw TCP length prefixes and non-zero WS Len nibbles */
  sp = &spaces[nspaces++];
  space_blind(sp, "tcp-lenforms-256-len0-2", M_AQ | M_AT, RC_TCP, 256, 0, 2);
  hv_product(sp, m_off, 2);
  for (int t = 0; t < 7; t++)
    for (int k = HM_RAW13; k <= HM_RAW15; k++)
      sp->hv[sp->nhv++] = (struct hv){TKLS[t], 0, (uint8_t)k};
  space_blind_done(sp);
  sp = &spaces[nspaces++];
  space_blind(sp, "tcp-lenforms-a20-len3-4", M_AQ | M_AT, RC_TCP, 20, 3, 4);
  hv_product(sp, m_off, 2);
  for (int t = 0; t < 7; t++)
    for (int k = HM_RAW13; k <= HM_RAW15; k++)
      sp->hv[sp->nhv++] = (struct hv){TKLS[t], 0, (uint8_t)k};
  space_blind_done(sp);
  sp = &spaces[nspaces++];
  space_blind(sp, "ws-lennibble-256-len0-2", M_AQ | M_AT, RC_WS, 256, 0, 2);
  hv_product(sp, m_wsbad, 3);
  space_blind_done(sp);
  /* beyond the declared spaces, thorough only, last so that a tight deadline cuts these first */
  sp = &spaces[nspaces++];
  space_blind(sp, "udp-256-len4-tkl0-get", M_FT, RC_UDP, 256, 4, 4);
  sp->hv[sp->nhv++] = (struct hv){0, 0x01, 0};
  space_blind_done(sp);
  sp = &spaces[nspaces++];
  space_blind(sp, "udp-a20-len6", M_AT, RC_UDP, 20, 6, 6);
  hv_product(sp, m_zero, 1);
  space_blind_done(sp);
}

/* space "fits-exactly": well-formed messages at the top of what a receive PDU of a given size may hold.  libcoap's receive paths
 * allocate the PDU for the session's maximum receive size and parse into it; a message whose token + options + payload is at most
 * that size is within "the maximum PDU size" of the quantifier and has to be accepted, on every framing. */
static void
fits_case(uint64_t idx, void *arg) {
  (void)arg;
  static const size_t SIZES[] = {60, 1148};
  size_t S = SIZES[idx % 2];
  uint64_t x = idx / 2;
  size_t B = S - 8 + (size_t)(x % 9); /* body: token + options + payload */
  x /= 9;
  size_t tkl = x % 2 ? 8 : 0;
  x /= 2;
  int fr = (int)x; /* 0 UDP, 1 TCP, 2 WS */
  static uint8_t m[1300];
  size_t n = 0, rest = B - tkl; /* options + payload */
  if (fr == 0) {
    m[n++] = (uint8_t)(0x40 | tkl);
    m[n++] = 0x01;
    m[n++] = 0x12;
    m[n++] = 0x34;
  } else if (fr == 1) {
    if (rest < 13)
      m[n++] = (uint8_t)(rest << 4 | tkl);
    else if (rest < 269) {
      m[n++] = (uint8_t)(13 << 4 | tkl);
      m[n++] = (uint8_t)(rest - 13);
    } else {
      m[n++] = (uint8_t)(14 << 4 | tkl);
      m[n++] = (uint8_t)((rest - 269) >> 8);
      m[n++] = (uint8_t)(rest - 269);
    }
    m[n++] = 0x01;
  } else {
    m[n++] = (uint8_t)tkl;
    m[n++] = 0x01;
  }
  size_t hdr = n;
  for (size_t i = 0; i < tkl; i++)
    m[n++] = (uint8_t)(0xA0 + i);
  m[n++] = 0xB1; /* Uri-Path "a" */
  m[n++] = 'a';
  m[n++] = 0xFF;
  while (n < hdr + B)
    m[n++] = (uint8_t)('0' + n % 10);
  uint8_t *in = malloc(n);
  memcpy(in, m, n);
  coap_proto_t proto = fr == 0 ? COAP_PROTO_UDP : fr == 1 ? COAP_PROTO_TCP : COAP_PROTO_WS;
  coap_pdu_t *pdu = coap_pdu_init(0, 0, 0, S);
  int ok = pdu && coap_pdu_parse(proto, in, n, pdu);
  size_t plen = 0;
  const uint8_t *pd = NULL;
  if (ok)
    coap_get_data(pdu, &plen, &pd);
  if (!ok || plen != B - tkl - 3) {
    char sig[100];
    snprintf(sig, sizeof sig, "reject:fits-receive-pdu:body=size%+d:%s", (int)B - (int)S, fr == 0 ? "udp" : fr == 1 ? "tcp" : "ws");
    vx_fail(sig, "well-formed %s message of %zu bytes (token %zu, one option, payload %zu: %zu bytes of token+options+payload) parsed into a PDU of size %zu: %s",
            fr == 0 ? "UDP" : fr == 1 ? "TCP" : "WS", n, tkl, B - tkl - 3, B, S, ok ? "payload length differs" : "rejected");
  }
  if (pdu)
    coap_delete_pdu(pdu);
  free(in);
  vxp_count(CN_CASES, 1);
}

int
main(int argc, char **argv) {
  vx_main_init(argc, argv, "C03");
  coap_startup();
  coap_set_log_level(COAP_LOG_EMERG);

  int st = rc_selftest();
  if (st) {
    fprintf(stderr, "refcodec self-test failed at refcodec.c:%d\n", st);
    return 2;
  }
  define_spaces();
  int replay = vx_replay_path() != NULL;
  unsigned me = IS_ASAN ? (vx_is_thorough() ? M_AT : M_AQ) : (vx_is_thorough() ? M_FT : M_FQ);
  struct corpus *cq = NULL, *ct = NULL;
  int table_built = 0;

  if (vxp_replay_if_match("fits-exactly", fits_case, NULL))
    return 0;
  if (!replay && IS_ASAN) {
    struct vxp_config fc = {.space = "fits-exactly", .total = 2 * 9 * 2 * 3, .chunk = 4};
    struct vxp_stats fs;
    vxp_enumerate(&fc, fits_case, NULL, &fs);
  }
  for (int i = 0; i < nspaces; i++) {
    struct space *sp = &spaces[i];
    if (!replay && !(sp->mask & me))
      continue;
    sp->inner = blind_case;
    if (sp->kind == SK_MUT) {
      int th = !strcmp(sp->name, "mut-corpus-t");
      if (replay) {
        /* build lazily: only if the artefact names this space */
        FILE *fp = fopen(vx_replay_path(), "r");
        char doc[4096] = "";
        if (fp) {
          size_t k = fread(doc, 1, sizeof doc - 1, fp);
          doc[k] = 0;
          fclose(fp);
        }
        char needle[100];
        snprintf(needle, sizeof needle, "\"%s\"", sp->name);
        if (!strstr(doc, needle))
          continue;
      }
      struct corpus **cp = th ? &ct : &cq;
      if (!*cp)
        *cp = corpus_build(th);
      sp->corp = *cp;
      sp->total = (*cp)->total;
      sp->batch = 64;
      sp->inner = mut_case;
    } else if (sp->kind == SK_TABLE) {
      if (!table_built) {
        table_build();
        table_built = 1;
      }
      sp->total = g_ntc * TABLE_VARIANTS;
      sp->batch = TABLE_VARIANTS;
      sp->inner = table_case;
    }
    sp->nbatches = (sp->total + sp->batch - 1) / sp->batch;
    /* work unit: ~1/512 of the space, at most 256 batches */
    sp->chunk = sp->nbatches / 512 + 1;
    if (sp->chunk > 256)
      sp->chunk = 256;
    if (vxp_replay_if_match(sp->name, batch_fn, sp))
      return 0;
    if (replay)
      continue;
    struct vxp_config c = {.space = sp->name, .total = sp->nbatches, .budget_s = 0, .chunk = sp->chunk};
    struct vxp_stats xs;
    uint64_t before = vxp_counter(CN_CASES);
    vxp_enumerate(&c, batch_fn, sp, &xs);
    {
      char k[120];
      char v[120];
      snprintf(k, sizeof k, "%s.cases", sp->name);
      snprintf(v, sizeof v, "%llu of %llu (batches of %llu per index)", (unsigned long long)(vxp_counter(CN_CASES) - before),
               (unsigned long long)sp->total, (unsigned long long)sp->batch);
      vx_ev_str(k, v);
      if (sp->kind == SK_MUT) {
        snprintf(k, sizeof k, "%s.messages", sp->name);
        vx_ev_int(k, sp->corp->n);
      }
    }
  }
  if (replay)
    return 3; /* artefact belongs to another stage */


  long long done_total = (long long)vxp_counter(CN_CASES);
  vx_ev_add_states(done_total, done_total, done_total);
  vx_ev_add_evals(done_total, (long long)vxp_distinct_count());
  vx_ev_rule("every case = one byte string handed to libcoap's decoder (exact-size heap copy, pdu sized by the input) "
             "and to the reference decoder; blind spaces: header variant (TKL 0/1/8/9/13/14/15 x code 0.00/0.01/2.05, "
             "for TCP x length-prefix mode, for WS x Len nibble) x every tail over the alphabet; mutation space: every "
             "nibble (16 values) of every header and option-header byte, every extension byte (256 values), marker "
             "insert/remove at every option boundary, truncation to every length, for every corpus message (TCP: raw and "
             "with the length prefix re-derived); table space: every option with defined limits at every limit boundary; space fits-exactly: well-formed messages whose token + options + payload is size-8..size of a receive PDU of size 60 / 1148, three framings. "
             "distinct_nontrivial = distinct byte strings accepted by both sides that carry a token, an option or a payload");
  vx_ev_assumption("Stream framing is driven without a socket: coap_pdu_parse_header_size + coap_pdu_parse_size + "
                   "coap_pdu_parse are called exactly as coap_read_session does for one chunk holding the whole string; "
                   "the string counts as accepted iff the size computed from the prefix equals the string length and "
                   "coap_pdu_parse returns 1. coap_read_session's own 'bytes_read > 2' guard for WebSocket frames and its "
                   "partial-read bookkeeping are not part of this check (C05).");
  vx_ev_assumption("TKL 9..12 are token lengths (RFC 8974 2.1, which libcoap implements); only TKL 15 is reserved.");
  vx_ev_assumption("Type and Message ID are compared for datagram framing only (RFC 8323 messages carry neither).");
  vx_ev_assumption("Signalling codes (7.xx): RFC 8323 option tables apply on TCP/WS; on UDP, and for unknown critical "
                   "signalling options, acceptance is not defined by the cited RFCs and is not compared (counted as unspecified).");
  vx_ev_assumption("Options without limits defined by an RFC that libcoap's table knows are unlimited in the reference.");
  vx_ev_int("refcodec_selftest", 1);
  vx_ev_int("both_accept", (long long)vxp_counter(CN_BOTH_ACCEPT));
  vx_ev_int("both_reject", (long long)vxp_counter(CN_BOTH_REJECT));
  vx_ev_int("unspecified_not_compared", (long long)vxp_counter(CN_UNSPECIFIED));
  vx_ev_int("accepted_with_options", (long long)vxp_counter(CN_WITH_OPTIONS));
  vx_ev_int("accepted_with_payload", (long long)vxp_counter(CN_WITH_PAYLOAD));
  vx_ev_int("mutations_not_applicable", (long long)vxp_counter(CN_SKIPPED));
  for (int r = 0; r < RC_NREASONS; r++) {
    char k[80];
    snprintf(k, sizeof k, "ref.%s", rc_reason_name((enum rc_reason)r));
    vx_ev_int(k, (long long)vxp_counter(CN_REASON0 + r));
  }
  return vx_finish();
}
