/* C07 -- each request concludes exactly once despite loss, duplication and delay (< ACK_TIMEOUT).
 *
 * Real libcoap client context against (a) a real libcoap server context answering piggybacked,
 * (b) the same with coap_register_async + coap_async_trigger (empty ACK, then separate response),
 * (c) async with a 1 s delay timer, (d) raw peers: empty ACK then separate NON; separate CON before the
 * empty ACK.  One exchange outstanding per session, timers never fire while datagrams are in flight.
 */
#include "netsim.h"
#include "wire.h"

enum { ST_PIGGY, ST_ASYNC_TRIG, ST_ASYNC_DELAY, ST_RAW_ACK_NON, ST_RAW_CON_FIRST, ST_RAW_ACK_CON };
static const char *style_names[] = {"piggy", "async-trigger", "async-delay", "raw:ack+sepNON", "raw:sepCON-before-ack", "raw:ack+sepCON"};

struct cfg {
  char name[160];
  int style;
  int nreq;
  char kinds[4]; /* 'G' CON GET, 'P' CON PUT, 'N' NON GET */
  int tkls[3];
  int fail_mask; /* bit i: response handler returns FAIL for request i */
  int bound;
  int free_drops;
  int allow_dup, allow_reorder;
  int deaf_first; /* every copy of the first request is lost: it ends by give-up (NACK); the later requests must still work */
  int burst; /* the application submits all (Confirmable) requests back to back; NSTART (1) holds the later ones */
  int other; /* a second session of the same client context has a Confirmable to a dead peer in its back-off (two retransmissions
              * made, the third 8-12 s away) when the script starts: its own one outstanding exchange, sharing the send queue */
};

struct req {
  uint8_t tok[8];
  int tkl;
  int is_con;
  int submitted, accepted;
  int mid;
  int tx;
  int resp_calls, nacks;
  int concluded_at_tx; /* tx count when it concluded */
  int resp_dgrams_delivered; /* response datagrams (any type) with this token delivered to the client */
  int twice_explained;       /* a more specific signature already explains a second handler call */
  int first_type, first_mid; /* the response that concluded the request */
};

static struct cfg *C;
static coap_context_t *cc, *sc;
static coap_session_t *cs;
static coap_address_t srv_addr, cli_addr, cli2_addr, dead_addr;
static coap_session_t *cs2;
static int other_tx, other_nacks, other_resp;
#define OTHER_TOK 0xD7
static struct req reqs[3];
static int next_req;
static coap_async_t *pending_asyncs[4]; /* FIFO of registered, not yet triggered open-ended async entries */
static int npending;
#define pending_async (npending ? pending_asyncs[0] : NULL)
static int
is_pending(coap_async_t *a) {
  for (int i = 0; i < npending; i++)
    if (pending_asyncs[i] == a)
      return 1;
  return 0;
}
static void
drop_pending(coap_async_t *a) {
  for (int i = 0; i < npending; i++)
    if (pending_asyncs[i] == a) {
      for (int j = i + 1; j < npending; j++)
        pending_asyncs[j - 1] = pending_asyncs[j];
      npending--;
      return;
    }
}
static int srv_handler_calls;
static int srv_handler_calls_for[3]; /* application-level processing runs per request (not counting the async re-entry) */

/* expectation for the datagram currently being delivered to the client */
static int exp_mid = -1, exp_kind; /* 0 none, 1 ACK, 2 RST, 3 ACK-or-RST */
static int got_ack, got_rst;
/* the response datagram being delivered right now: is it a copy of one the client already got? */
static int cur_is_dup, cur_dup_type, cur_newer_seen, cur_tokidx;
static struct {
  int type, mid;
} seen_resp[64];
static int nseen_resp;
/* duplicate bookkeeping: mids of CON responses already delivered to the client, with the verdict given */
static struct {
  int mid, verdict_fail, tokidx;
} seen_con[32];
static int nseen_con;
/* raw peer state */
static int raw_next_mid = 0x0000; /* the raw peer numbers its own messages from 0 (a fresh session must not mistake id 0 for "seen before") */
static struct {
  int mid;
  uint8_t tok[8];
  int tkl;
  int answered;
} raw_seen[8];
static int nraw_seen;

static int
req_by_token(const uint8_t *t, size_t l) {
  for (int i = 0; i < C->nreq; i++)
    if (reqs[i].submitted && (size_t)reqs[i].tkl == l && (l == 0 || !memcmp(reqs[i].tok, t, l)))
      return i;
  return -1;
}

static coap_response_t
resp_handler(coap_session_t *session, const coap_pdu_t *sent, const coap_pdu_t *received, const coap_mid_t mid) {
  (void)session;
  (void)sent;
  coap_bin_const_t t = coap_pdu_get_token(received);
  int i = req_by_token(t.s, t.length);
  size_t len = 0;
  const uint8_t *data = NULL;
  coap_get_data(received, &len, &data);
  vx_observe("t=%llu RESP-HANDLER req=%d type=%d code=%d mid=%04x len=%zu sent=%s", (unsigned long long)ns_now(), i,
             coap_pdu_get_type(received), coap_pdu_get_code(received), mid, len, sent ? "y" : "n");
  if (i < 0 && C->other && t.length == 1 && t.s[0] == OTHER_TOK) {
    other_resp++;
    return COAP_RESPONSE_OK;
  }
  if (i < 0) {
    char hx[20];
    vx_hex(hx, sizeof hx, t.s, t.length);
    vx_fail("handler:foreign-token", "response handler got token %s which the application never used", hx);
    return COAP_RESPONSE_OK;
  }
  reqs[i].resp_calls++;
  if (cur_is_dup && cur_dup_type != 1 && i == cur_tokidx) {
    /* a duplicate of a CON / ACK response reached the handler again */
    char sig[100];
    snprintf(sig, sizeof sig, "dup-redelivered:%s:%s", cur_dup_type == 0 ? "con-response" : "piggybacked-ack",
             cur_newer_seen ? "after-newer-exchange" : "immediate");
    vx_fail(sig, "request %d: duplicate of response mid=%04x delivered to the response handler again (%s)", i, mid,
            cur_newer_seen ? "another exchange's response of the same type was received in between; libcoap remembers only the last mid per type"
                           : "no other response in between");
    reqs[i].twice_explained = 1;
  }
  if (reqs[i].resp_calls == 1) {
    reqs[i].first_type = coap_pdu_get_type(received);
    reqs[i].first_mid = mid;
  } else if (!cur_is_dup && reqs[i].is_con && C->style != ST_RAW_ACK_NON && srv_handler_calls_for[i] > 1 &&
             (reqs[i].first_type != (int)coap_pdu_get_type(received) || reqs[i].first_mid != mid)) {
    /* a second, different response message for an exchange that already concluded: the server processed a
     * retransmitted copy of the request again and the client hands the extra response to the application */
    vx_fail("response-twice:second-distinct-response:server-reprocessed-retransmitted-request",
            "request %d concluded by response type=%d mid=%04x, then a second response type=%d mid=%04x with the same token reached the handler",
            i, reqs[i].first_type, reqs[i].first_mid, coap_pdu_get_type(received), mid);
    reqs[i].twice_explained = 1;
  }
  if (reqs[i].resp_calls == 1 && !reqs[i].nacks)
    reqs[i].concluded_at_tx = reqs[i].tx;
  return (C->fail_mask >> i) & 1 ? COAP_RESPONSE_FAIL : COAP_RESPONSE_OK;
}

static void
nack_handler(coap_session_t *session, const coap_pdu_t *sent, const coap_nack_reason_t reason, const coap_mid_t mid) {
  (void)session;
  int i = -1;
  if (sent) {
    coap_bin_const_t t = coap_pdu_get_token(sent);
    i = req_by_token(t.s, t.length);
    if (i < 0 && C->other && t.length == 1 && t.s[0] == OTHER_TOK)
      other_nacks++;
  }
  vx_observe("t=%llu NACK-HANDLER req=%d reason=%d mid=%04x", (unsigned long long)ns_now(), i, reason, mid);
  if (i >= 0) {
    reqs[i].nacks++;
    if (reqs[i].nacks == 1 && !reqs[i].resp_calls)
      reqs[i].concluded_at_tx = reqs[i].tx;
  }
}

/* ---- libcoap server side ---- */
static void
hnd(coap_resource_t *resource, coap_session_t *session, const coap_pdu_t *request, const coap_string_t *query,
    coap_pdu_t *response) {
  (void)resource;
  (void)query;
  srv_handler_calls++;
  if (C->style == ST_ASYNC_TRIG || C->style == ST_ASYNC_DELAY) {
    coap_bin_const_t tok = coap_pdu_get_token(request);
    coap_async_t *a = coap_find_async(session, tok);
    if (!a) {
      int ri = req_by_token(tok.s, tok.length);
      if (ri >= 0)
        srv_handler_calls_for[ri]++;
      a = coap_register_async(session, request, C->style == ST_ASYNC_DELAY ? COAP_TICKS_PER_SECOND : 0);
      if (a) {
        if (C->style == ST_ASYNC_TRIG)
          if (npending < 4)
            pending_asyncs[npending++] = a;
        vx_observe("   server: async registered");
        return; /* no code => empty ACK for CON */
      }
    } else if (is_pending(a)) {
      /* the handler runs again for an exchange whose open-ended async entry the application has not triggered yet: the
       * only way in is a retransmitted copy of the request that the library should have answered with an empty ACK */
      vx_fail("server-handler:retransmitted-request-during-pending-async",
              "the request handler was invoked again for a request whose async entry (delay 0) is still pending and was not triggered");
      drop_pending(a);
    }
  }
  coap_pdu_set_code(response, coap_pdu_get_code(request) == COAP_REQUEST_CODE_PUT ? COAP_RESPONSE_CODE_CHANGED : COAP_RESPONSE_CODE_CONTENT);
  if (coap_pdu_get_code(request) != COAP_REQUEST_CODE_PUT)
    coap_add_data(response, 5, (const uint8_t *)"hello");
  vx_observe("   server: handler answered (call %d)", srv_handler_calls);
}

/* ---- raw peer ---- */
static void
raw_rx(const ns_dgram_t *d) {
  struct w_msg m;
  if (!w_parse(d->data, d->len, &m))
    return;
  if (m.type == 2 || m.type == 3) {
    vx_observe("   rawpeer got %s mid=%04x", m.type == 2 ? "ACK" : "RST", m.mid);
    return;
  }
  if (m.code == 0 || m.code >= 32)
    return;
  /* a request: idempotent peer -- answers every copy the same way (same mids) */
  int k;
  for (k = 0; k < nraw_seen; k++)
    if (raw_seen[k].mid == m.mid)
      break;
  int first = k == nraw_seen;
  int sepmid;
  if (first) {
    if (nraw_seen >= 8)
      return;
    raw_seen[k].mid = m.mid;
    raw_seen[k].answered = raw_next_mid++;
    nraw_seen++;
  }
  sepmid = raw_seen[k].answered;
  struct w_buf ack, sep;
  w_begin(&ack, 2, 0, m.mid, NULL, 0);
  int septype = C->style == ST_RAW_ACK_NON ? 1 : 0;
  w_begin(&sep, septype, 0x45, sepmid, m.token, m.tkl);
  w_payload(&sep, "hello", 5);
  vx_observe("   rawpeer got request mid=%04x type=%d (copy %s)", m.mid, m.type, first ? "1st" : "dup");
  if (m.type == 0) {
    if (C->style == ST_RAW_CON_FIRST) {
      ns_inject(&d->dst, &d->src, sep.b, sep.n);
      ns_inject(&d->dst, &d->src, ack.b, ack.n);
    } else {
      ns_inject(&d->dst, &d->src, ack.b, ack.n);
      ns_inject(&d->dst, &d->src, sep.b, sep.n);
    }
  } else {
    /* NON request: NON response */
    w_begin(&sep, 1, 0x45, sepmid, m.token, m.tkl);
    w_payload(&sep, "hello", 5);
    ns_inject(&d->dst, &d->src, sep.b, sep.n);
  }
}

/* ---- wire monitor ---- */
static void
on_send(const ns_dgram_t *d) {
  struct w_msg m;
  int from_client = ns_addr_host(&d->src) == ns_addr_host(&cli_addr);
  if (C->other && ns_addr_host(&d->src) == ns_addr_host(&cli2_addr)) {
    other_tx++;
    vx_observe("t=%llu C2 TX (other session, copy %d)", (unsigned long long)ns_now(), other_tx);
    if (other_nacks)
      vx_fail("retx:after-nack:other-session", "the other session's request was transmitted again after its NACK");
    return;
  }
  if (!w_parse(d->data, d->len, &m)) {
    vx_fail("wire:malformed", "%s emitted a malformed datagram", from_client ? "client" : "server");
    return;
  }
  vx_observe("t=%llu %s TX type=%d code=%d mid=%04x tkl=%d", (unsigned long long)ns_now(), from_client ? "C" : "S", m.type, m.code,
             m.mid, m.tkl);
  if (!from_client)
    return;
  if (m.code >= 1 && m.code < 32) {
    int i = req_by_token(m.token, (size_t)m.tkl);
    if (i < 0) {
      vx_fail("wire:foreign-request", "client transmitted a request with a token the application never used");
      return;
    }
    struct req *r = &reqs[i];
    r->tx++;
    if (r->tx > 1)
      vx_nontrivial();
    if (r->resp_calls || r->nacks)
      vx_fail(r->resp_calls ? "retx:after-response" : "retx:after-nack",
              "request %d transmitted again (tx #%d) after it concluded (responses=%d nacks=%d)", i, r->tx, r->resp_calls,
              r->nacks);
  } else if (m.code == 0 && (m.type == 2 || m.type == 3)) {
    if (m.mid == exp_mid) {
      if (m.type == 2)
        got_ack++;
      else
        got_rst++;
    }
  }
}

static void
on_deliver(const ns_dgram_t *d) {
  exp_mid = -1;
  exp_kind = 0;
  got_ack = got_rst = 0;
  cur_is_dup = 0;
  if (ns_addr_host(&d->dst) != ns_addr_host(&cli_addr))
    return;
  struct w_msg m;
  if (!w_parse(d->data, d->len, &m))
    return;
  vx_observe("t=%llu C RX type=%d code=%d mid=%04x", (unsigned long long)ns_now(), m.type, m.code, m.mid);
  if (m.code >= 64) {
    int i = req_by_token(m.token, (size_t)m.tkl);
    if (i >= 0)
      reqs[i].resp_dgrams_delivered++;
    /* duplicate bookkeeping per (type, mid) */
    cur_tokidx = i;
    cur_dup_type = m.type;
    cur_newer_seen = 0;
    for (int k = 0; k < nseen_resp; k++)
      if (seen_resp[k].type == m.type && seen_resp[k].mid == m.mid) {
        cur_is_dup = 1;
        for (int q = k + 1; q < nseen_resp; q++)
          if (seen_resp[q].type == m.type && seen_resp[q].mid != m.mid)
            cur_newer_seen = 1;
      }
    if (nseen_resp < 64) {
      seen_resp[nseen_resp].type = m.type;
      seen_resp[nseen_resp].mid = m.mid;
      nseen_resp++;
    }
    if (m.type == 0) {
      /* Confirmable response: must be acknowledged, again when duplicate; RST iff the handler said FAIL */
      int k;
      for (k = 0; k < nseen_con; k++)
        if (seen_con[k].mid == m.mid)
          break;
      int fail = i >= 0 && ((C->fail_mask >> i) & 1);
      if (k == nseen_con && nseen_con < 32) {
        seen_con[k].mid = m.mid;
        seen_con[k].verdict_fail = fail;
        seen_con[k].tokidx = i;
        nseen_con++;
      } else if (k < nseen_con)
        fail = seen_con[k].verdict_fail;
      exp_mid = m.mid;
      exp_kind = fail ? 2 : 1;
    } else if (m.type == 1 && i >= 0 && ((C->fail_mask >> i) & 1)) {
      exp_mid = m.mid;
      exp_kind = 2;
    }
  }
}

static void
after_deliver(void) {
  if (exp_mid < 0)
    return;
  if (exp_kind == 1 && got_ack != 1)
    vx_fail(got_rst ? "ack:rst-instead" : got_ack ? "ack:twice" : "ack:missing", "CON response mid=%04x: %d ACKs, %d RSTs emitted",
            exp_mid, got_ack, got_rst);
  if (exp_kind == 2 && got_rst != 1)
    vx_fail(got_ack ? "rst:ack-instead" : got_rst ? "rst:twice" : "rst:missing",
            "response mid=%04x rejected by the handler (FAIL): %d ACKs, %d RSTs emitted", exp_mid, got_ack, got_rst);
  exp_mid = -1;
}

/* ---- script ---- */
static int
prev_concluded(void) {
  if (next_req == 0)
    return 1;
  struct req *p = &reqs[next_req - 1];
  if (!p->accepted)
    return 1;
  if (!p->is_con)
    return p->resp_calls > 0 || ns_inflight_count() == 0; /* NON: see step(): lowest priority */
  return p->resp_calls + p->nacks > 0;
}
static void
submit_next(void) {
  int i = next_req++;
  struct req *r = &reqs[i];
  char k = C->kinds[i];
  r->tkl = C->tkls[i];
  for (int b = 0; b < r->tkl; b++)
    r->tok[b] = (uint8_t)(0x10 * (i + 1) + b);
  r->is_con = k != 'N';
  coap_pdu_t *pdu = coap_new_pdu(r->is_con ? COAP_MESSAGE_CON : COAP_MESSAGE_NON, k == 'P' ? COAP_REQUEST_CODE_PUT : COAP_REQUEST_CODE_GET, cs);
  coap_add_token(pdu, (size_t)r->tkl, r->tok);
  coap_add_option(pdu, COAP_OPTION_URI_PATH, 1, (const uint8_t *)"r");
  if (k == 'P')
    coap_add_data(pdu, 3, (const uint8_t *)"abc");
  r->submitted = 1;
  r->mid = coap_pdu_get_mid(pdu);
  coap_mid_t res = coap_send(cs, pdu);
  r->accepted = res != COAP_INVALID_MID;
  vx_observe("t=%llu SUBMIT req=%d kind=%c tkl=%d -> %d", (unsigned long long)ns_now(), i, k, r->tkl, res);
}

static int
step(void) {
  enum { EV_DELIVER, EV_APP, EV_TRIGGER, EV_TIMER, EV_REORDER, EV_DROP, EV_DUP };
  struct {
    int kind, idx;
  } ev[VX_MAXALT];
  uint8_t cost[VX_MAXALT];
  int n = 0;
  unsigned tmo = ns_prepare_all();
  if (C->other)
    for (int j = 0; j < ns_inflight_count();) { /* nobody lives at the other session's peer address */
      if (ns_addr_host(&ns_inflight(j)->dst) == ns_addr_host(&dead_addr))
        ns_drop(j);
      else
        j++;
    }
  if (C->deaf_first && reqs[0].submitted) {
    /* the network loses every copy of request 0 */
    for (int j = 0; j < ns_inflight_count();) {
      ns_dgram_t *d = ns_inflight(j);
      if (!d->from_raw && d->len >= 4 && ((d->data[0] >> 4) & 3) == 0 && d->data[1] && d->data[1] < 32 &&
          (d->data[2] << 8 | d->data[3]) == (reqs[0].mid & 0xffff)) {
        vx_observe("   (copy of request 0 lost)");
        ns_drop(j);
      } else
        j++;
    }
  }
  int nf = ns_inflight_count();
  if (C->burst && next_req < C->nreq)
    ev[n].kind = EV_APP, ev[n++].idx = 0;
  else if (nf > 0)
    ev[n].kind = EV_DELIVER, ev[n++].idx = 0;
  else if (pending_async)
    ev[n].kind = EV_TRIGGER, ev[n++].idx = 0; /* the server application answers before any client timer */
  else if (next_req < C->nreq && prev_concluded() &&
           !(next_req > 0 && !reqs[next_req - 1].is_con && reqs[next_req - 1].resp_calls == 0 && tmo && tmo < 200000))
    ev[n].kind = EV_APP, ev[n++].idx = 0; /* after a NON request: only once nothing else can happen (one exchange outstanding) */
  else if (tmo && tmo < 200000 && ns_now() < 2000000)
    ev[n].kind = EV_TIMER, ev[n++].idx = (int)tmo;
  if (n == 0)
    return 0;
  cost[0] = 0;
  int budget = vx_budget_left();
  for (int j = 0; j < nf && j < 4 && n < VX_MAXALT - 3; j++) {
    ns_dgram_t *d = ns_inflight(j);
    int freed = C->free_drops && d->id < C->free_drops;
    /* a raw peer does not retransmit: its separate responses are not lost (the libcoap-server styles cover that) */
    int nodrop = d->from_raw && d->len >= 2 && d->data[1] >= 64;
    if ((freed || budget > 0) && !nodrop)
      ev[n].kind = EV_DROP, ev[n].idx = j, cost[n++] = freed ? 0 : 1;
    if (budget > 0 && !C->free_drops) {
      if (j >= 1 && C->allow_reorder)
        ev[n].kind = EV_REORDER, ev[n].idx = j, cost[n++] = 1;
      if (C->allow_dup && ns_dups_done < 3)
        ev[n].kind = EV_DUP, ev[n].idx = j, cost[n++] = 1;
    }
  }
  int c = vx_choose(n, cost, "step");
  switch (ev[c].kind) {
  case EV_DELIVER:
    ns_deliver(0);
    after_deliver();
    break;
  case EV_REORDER:
    vx_observe("   reorder: deliver dgram#%d first", ns_inflight(ev[c].idx)->id);
    ns_deliver(ev[c].idx);
    after_deliver();
    break;
  case EV_DUP:
    vx_observe("   dup dgram#%d", ns_inflight(ev[c].idx)->id);
    ns_duplicate(ev[c].idx);
    after_deliver();
    break;
  case EV_DROP:
    vx_observe("   drop dgram#%d", ns_inflight(ev[c].idx)->id);
    ns_drop(ev[c].idx);
    break;
  case EV_APP:
    submit_next();
    break;
  case EV_TRIGGER:
    vx_observe("   server app: coap_async_trigger");
    {
      coap_async_t *a = pending_async;
      drop_pending(a);
      coap_async_trigger(a);
    }
    break;
  case EV_TIMER:
    ns_advance((uint64_t)ev[c].idx);
    break;
  }
  if (c)
    vx_nontrivial();
  return 1;
}

static void
run(void *arg) {
  C = arg;
  ns_init();
  memset(reqs, 0, sizeof reqs);
  next_req = 0;
  npending = 0;
  srv_handler_calls = 0;
  memset(srv_handler_calls_for, 0, sizeof srv_handler_calls_for);
  exp_mid = -1;
  nseen_con = 0;
  nseen_resp = 0;
  cur_is_dup = 0;
  nraw_seen = 0;
  raw_next_mid = 0x0000;
  ns_on_send = on_send;
  ns_on_deliver = on_deliver;
  ns_raw_rx = raw_rx;
  ns_addr(&srv_addr, 1, 5683);
  ns_addr(&cli_addr, 50, 40001);
  sc = NULL;
  if (C->style <= ST_ASYNC_DELAY) {
    sc = coap_new_context(NULL);
    ns_register_ctx(sc);
    coap_new_endpoint(sc, &srv_addr, COAP_PROTO_UDP);
    coap_resource_t *r = coap_resource_init(coap_make_str_const("r"), 0);
    coap_register_request_handler(r, COAP_REQUEST_GET, hnd);
    coap_register_request_handler(r, COAP_REQUEST_PUT, hnd);
    coap_add_resource(sc, r);
  }
  cc = coap_new_context(NULL);
  ns_register_ctx(cc);
  coap_register_response_handler(cc, resp_handler);
  coap_register_nack_handler(cc, nack_handler);
  cs = coap_new_client_session(cc, &cli_addr, &srv_addr, COAP_PROTO_UDP);
  cs2 = NULL;
  other_tx = other_nacks = other_resp = 0;
  if (C->other) {
    ns_addr(&cli2_addr, 51, 40002);
    ns_addr(&dead_addr, 9, 5683);
    cs2 = coap_new_client_session(cc, &cli2_addr, &dead_addr, COAP_PROTO_UDP);
    coap_pdu_t *p = coap_new_pdu(COAP_MESSAGE_CON, COAP_REQUEST_CODE_GET, cs2);
    uint8_t ot = OTHER_TOK;
    coap_add_token(p, 1, &ot);
    coap_add_option(p, COAP_OPTION_URI_PATH, 1, (const uint8_t *)"r");
    coap_send(cs2, p);
    for (int k = 0; k < 2; k++) { /* two retransmissions, all lost */
      unsigned t = ns_prepare_all();
      while (ns_inflight_count())
        ns_drop(0);
      ns_advance(t);
    }
    ns_prepare_all();
    while (ns_inflight_count())
      ns_drop(0);
    ns_advance(3500); /* well inside the 8-12 s back-off before the third */
    vx_observe("t=%llu other session: %d copies sent so far", (unsigned long long)ns_now(), other_tx);
  }
  int steps = 0;
  while (steps++ < 500 && step())
    ;
  if (steps >= 500)
    vx_fail("horizon:steps", "scenario did not become quiescent within 500 events");
  char oc[100] = "";
  size_t o = 0;
  for (int i = 0; i < C->nreq; i++) {
    struct req *r = &reqs[i];
    if (!r->submitted) {
      o += (size_t)snprintf(oc + o, sizeof oc - o, "%s-", i ? "," : "");
      continue;
    }
    if (r->is_con && r->accepted && C->style == ST_RAW_ACK_NON) {
      /* separate NON responses are not de-duplicated: one handler call per datagram received */
      if (r->resp_calls != r->resp_dgrams_delivered)
        vx_fail("non-response:delivery-count", "request %d: %d NON response datagrams delivered but %d handler calls", i,
                r->resp_dgrams_delivered, r->resp_calls);
      if (r->nacks)
        vx_fail("conclude:nack-despite-response", "request %d: %d NACKs", i, r->nacks);
    } else if (r->is_con && r->accepted) {
      char sig[120];
      if (r->resp_calls + r->nacks == 0) {
        snprintf(sig, sizeof sig, "conclude:neither:%s", style_names[C->style]);
        vx_fail(sig, "CON request %d: no response-handler call and no NACK at quiescence (tx=%d)", i, r->tx);
      } else if (r->resp_calls && r->nacks) {
        snprintf(sig, sizeof sig, "conclude:both:%s", style_names[C->style]);
        vx_fail(sig, "CON request %d: %d response-handler calls and %d NACKs", i, r->resp_calls, r->nacks);
      } else if (r->resp_calls > 1 && !r->twice_explained) {
        snprintf(sig, sizeof sig, "conclude:response-twice:%s", style_names[C->style]);
        vx_fail(sig, "CON request %d: response handler called %d times", i, r->resp_calls);
      } else if (r->nacks > 1) {
        snprintf(sig, sizeof sig, "conclude:nack-twice:%s", style_names[C->style]);
        vx_fail(sig, "CON request %d: %d NACKs", i, r->nacks);
      }
    } else if (!r->is_con && r->accepted) {
      if (r->resp_calls != r->resp_dgrams_delivered)
        vx_fail("non:delivery-count", "NON request %d: %d response datagrams delivered to the client but %d handler calls", i,
                r->resp_dgrams_delivered, r->resp_calls);
    }
    o += (size_t)snprintf(oc + o, sizeof oc - o, "%sr%dn%dtx%d", i ? "," : "", r->resp_calls, r->nacks, r->tx);
  }
  if (C->other && (other_nacks != 1 || other_resp)) {
    char sig[100];
    snprintf(sig, sizeof sig, "conclude:other-session:nacks=%d:responses=%d", other_nacks, other_resp);
    vx_fail(sig, "the other session's Confirmable to a dead peer (%d copies sent) ended with %d NACKs and %d responses", other_tx, other_nacks, other_resp);
  }
  vx_outcome("%s", oc);
  if (cs2)
    coap_session_release(cs2);
  coap_session_release(cs);
  ns_unregister_ctx(cc);
  coap_free_context(cc);
  if (sc) {
    ns_unregister_ctx(sc);
    coap_free_context(sc);
  }
  ns_fini();
}

static struct cfg *cfgs;
static int ncfgs;
static void
add(struct cfg c) {
  cfgs = realloc(cfgs, sizeof *cfgs * (size_t)(ncfgs + 1));
  snprintf(c.name, sizeof c.name, "c07:%s,n=%d,k=%s,tkl=%d%d%d,fail=%d,fd=%d,dup=%d,ro=%d,burst=%d,deaf=%d,other=%d,B=%d", style_names[c.style], c.nreq, c.kinds,
           c.tkls[0], c.tkls[1], c.tkls[2], c.fail_mask, c.free_drops, c.allow_dup, c.allow_reorder, c.burst, c.deaf_first, c.other, c.bound);
  cfgs[ncfgs++] = c;
}

int
main(int argc, char **argv) {
  vx_main_init(argc, argv, "C07");
  int T = vx_is_thorough();
  static const char *seqs1[] = {"G", "P", "N"};
  static const char *seqs2[] = {"GG", "GP", "NG", "PN"};
  static const char *seqs3[] = {"GPG", "GNP"};
  for (int st = 0; st <= ST_RAW_ACK_CON; st++) {
    for (int s = 0; s < 3; s++)
      for (int f = 0; f < 2; f++) {
        struct cfg c = {.style = st, .nreq = 1, .tkls = {s == 0 ? 2 : s == 1 ? 8 : 0, 0, 0}, .fail_mask = f, .bound = T ? 4 : 3,
                        .allow_dup = 1, .allow_reorder = 1};
        strcpy(c.kinds, seqs1[s]);
        add(c);
      }
    for (int s = 0; s < 4; s++) {
      struct cfg c = {.style = st, .nreq = 2, .tkls = {2, 8, 0}, .fail_mask = s == 1 ? 1 : 0, .bound = T ? 3 : 2, .allow_dup = 1,
                      .allow_reorder = 1};
      strcpy(c.kinds, seqs2[s]);
      add(c);
    }
    for (int s = 0; s < 2; s++) {
      struct cfg c = {.style = st, .nreq = 3, .tkls = {0, 2, 8}, .fail_mask = s ? 2 : 0, .bound = T ? 3 : 2, .allow_dup = 1,
                      .allow_reorder = 1};
      strcpy(c.kinds, seqs3[s]);
      add(c);
    }
  }
  /* back-to-back submission: the later Confirmable requests are held by NSTART until the earlier exchange ends, however
   * it ends (piggybacked response, separate response after a lost empty ACK, give-up) */
  for (int st = 0; st <= ST_RAW_ACK_CON; st++)
    for (int s = 0; s < 2; s++) {
      struct cfg c = {.style = st, .nreq = s ? 3 : 2, .tkls = {2, 8, 0}, .bound = T ? 3 : 2, .allow_dup = 0, .allow_reorder = 1, .burst = 1};
      strcpy(c.kinds, s ? "GPG" : "GG");
      add(c);
    }
  /* the first exchange ends by give-up (all copies of its request lost); later requests on the session, submitted after
   * it or held behind it, must still conclude */
  for (int st = 0; st <= ST_RAW_ACK_CON; st += ST_RAW_ACK_CON)
    for (int b = 0; b < 2; b++) {
      struct cfg c = {.style = st, .nreq = 2, .tkls = {2, 8, 0}, .bound = T ? 2 : 1, .allow_dup = 0, .allow_reorder = 1, .burst = b, .deaf_first = 1};
      strcpy(c.kinds, "GG");
      add(c);
    }
  /* several sessions per context, one exchange each: while the script runs, another session of the same client context sits
   * in the back-off of a Confirmable to a dead peer (its retransmissions and give-up share the send queue) */
  for (int st = 0; st <= ST_RAW_ACK_CON; st++) {
    if (!T && st != ST_PIGGY && st != ST_ASYNC_TRIG && st != ST_RAW_ACK_CON)
      continue;
    struct cfg c = {.style = st, .nreq = 2, .tkls = {2, 8, 0}, .bound = T ? 3 : 2, .allow_dup = 1, .allow_reorder = 1, .other = 1};
    strcpy(c.kinds, "GP");
    add(c);
  }
  /* all drop subsets of the first 10 datagrams: piggybacked style (where every subset must end in response or NACK) */
  for (int s = 0; s < 2; s++) {
    struct cfg c = {.style = ST_PIGGY, .nreq = 1, .tkls = {2, 0, 0}, .bound = 0, .free_drops = 10};
    strcpy(c.kinds, seqs1[s]);
    add(c);
  }
  if (T) {
    struct cfg c = {.style = ST_PIGGY, .nreq = 2, .tkls = {2, 8, 0}, .bound = 0, .free_drops = 12};
    strcpy(c.kinds, "GP");
    add(c);
  }
  vx_ev_rule("executions of a real libcoap client against a real libcoap server (piggybacked / async separate response) or a raw peer "
             "(empty ACK + separate NON/CON in either order); request sequences of 1-3 CON GET / CON PUT / NON GET with token lengths 0/2/8 "
             "and handler verdicts OK/FAIL; all schedules with <= bound drop/duplicate/reorder deviations, timers only when the network is "
             "empty (delay < ACK_TIMEOUT); plus all 2^10 drop subsets of the first 10 datagrams for the piggybacked style, back-to-back submissions (later requests held by NSTART), a first exchange that ends by give-up, and a second session of the same context in the back-off of its own Confirmable to a dead peer; non-trivial = a "
             "deviation was taken or a retransmission occurred; distinct = distinct observation logs");
  vx_ev_assumption("server applications answer (coap_async_trigger) before any client timer fires; a server that never answers after its empty ACK is outside the statement");
  vx_ev_assumption("raw peers are idempotent: every copy of a request is answered with the same message ids");
  vx_ev_assumption("peers echo the request token (a peer answering with a foreign token is outside the quantifier)");
  for (int i = 0; i < ncfgs; i++)
    if (vx_replay_if_match(cfgs[i].name, run, &cfgs[i]))
      return 0;
  if (vx_replay_path()) {
    fprintf(stderr, "replay file does not match any scenario\n");
    return 2;
  }
  struct vx_config *vcs = calloc((size_t)ncfgs, sizeof *vcs);
  void **args = calloc((size_t)ncfgs, sizeof *args);
  for (int i = 0; i < ncfgs; i++) {
    vcs[i] = (struct vx_config){.scenario = cfgs[i].name, .bound = cfgs[i].bound, .leakcheck = 1};
    args[i] = &cfgs[i];
  }
  struct vx_scn_stats st;
  vx_explore_multi("c07:all", vcs, args, ncfgs, run, 0, &st);
  vx_ev_int("scenarios", ncfgs);
  return vx_finish();
}
