/* reflink -- boring reference for CoRE Link Format (RFC 6690), written from the RFC text only.
 *
 *  - serialisation of a resource table (RFC 6690 section 2 ABNF): "</path>;name=value;name,..."
 *  - parser for link-value-list (section 2), giving the *interpreted* links: target, and for every
 *    link-param its name and the value after quoted-string interpretation (RFC 2616 2.2)
 *  - query filter of section 4.1: one name=value pair; name "href" (the URI-reference between < and >)
 *    or a link-param name; value is a Complete Value String (bytewise identical) or a Prefix Value
 *    String followed by '*' (bytewise prefix); rt / if / rel (relation-types) hold space separated
 *    values and match when any one of the values matches.
 *
 * No libcoap includes, no allocation, arrays and linear scans only.  Strings are C strings.
 */
#ifndef REFLINK_H
#define REFLINK_H
#include <stddef.h>
#include <stdint.h>

#define RL_MAXATTR 10   /* registered attributes per resource */
#define RL_MAXLINKS 24  /* links per document */
#define RL_MAXNAME 24
#define RL_MAXVAL 96
#define RL_MAXTARGET 96

/* What the application registered.  `value` is the text exactly as registered: a ptoken (rt=x), a
 * quoted-string including its double quotes (rt="x y", title=""), or NULL for a name-only attribute. */
struct rl_attr {
  const char *name;
  const char *value;
};
struct rl_res {
  const char *path; /* without the leading '/' */
  int nattr;
  struct rl_attr attr[RL_MAXATTR]; /* in registration order */
  int observable;  /* listed with the "obs" link-param (RFC 7641 section 6) */
  int oscore_only; /* listed with the "osc" link-param (RFC 8613 section 9) */
};

/* Interpreted link: what a client reading the document understands. */
struct rl_pattr {
  char name[RL_MAXNAME];
  int has_value;
  int quoted; /* value was notated as quoted-string (informational, not part of equality) */
  char value[RL_MAXVAL]; /* after quoted-string interpretation */
  size_t vlen;
};
struct rl_link {
  char target[RL_MAXTARGET]; /* the URI-reference between '<' and '>' */
  size_t tlen;
  int nattr;
  struct rl_pattr attr[RL_MAXATTR + 2];
  size_t start, end; /* byte span [start,end) of the link-value in the parsed text */
};
struct rl_doc {
  int nlinks;
  struct rl_link link[RL_MAXLINKS];
};

/* Serialise one resource / a table (links joined by ',', in table order).  Returns the length that
 * the serialisation has (it is truncated to cap, never terminated). */
size_t rl_serialise_link(const struct rl_res *r, char *out, size_t cap);
size_t rl_serialise(const struct rl_res *const *tab, int n, char *out, size_t cap);

/* Interpreted form of a registered resource (attributes in registration order, then obs, osc). */
int rl_model_link(const struct rl_res *r, struct rl_link *out);

/* Parse a link-value-list.  0 = well-formed; otherwise -1 and a reason (with byte position) in err. */
int rl_parse(const uint8_t *s, size_t n, struct rl_doc *out, char *err, size_t errlen);

/* Same target and the same multiset of (name, has_value, interpreted value).  The order of
 * link-params carries no meaning in RFC 6690 and is not compared. */
int rl_link_equal(const struct rl_link *a, const struct rl_link *b);
/* Which attribute differs: writes the name of the first attribute of `want` that `got` lacks, or of the
 * first attribute of `got` that `want` lacks, into name; returns 0 if none. */
int rl_link_attr_diff(const struct rl_link *want, const struct rl_link *got, char *name, size_t namelen);

/* ---- section 4.1 filter ---- */
struct rl_query {
  int wellformed;         /* exactly name=value with non-empty name and non-empty search value */
  char name[RL_MAXNAME];  /* "href" or a link-param name */
  int is_href;
  int is_reltypes;        /* rt / if / rel: space separated values */
  int prefix;             /* value ended in '*' (the '*' is not part of val) */
  uint8_t val[RL_MAXVAL]; /* Complete Value String or Prefix Value String */
  size_t vlen;
  int has_space;          /* search value contains SP: cannot equal any single relation-type */
};
/* q is the (already percent-decoded, as carried in a CoAP Uri-Query option) query component. */
void rl_query_split(const uint8_t *q, size_t qlen, struct rl_query *out);

enum { RL_NOMATCH = 0, RL_MATCH = 1, RL_UNSPEC = 2 };
/* Does resource r pass the filter?  q == NULL: no filter, everything passes.  RL_UNSPEC: RFC 6690 does
 * not define the answer (malformed filter, empty value string, empty prefix, a search value containing
 * a space against a multi-valued attribute whose whole value it equals, name-only attribute). */
int rl_filter(const uint8_t *q, size_t qlen, const struct rl_res *r);

/* Built-in self test (RFC 6690 section 5 examples and edge cases).  0 = ok. */
int rl_selftest(char *err, size_t errlen);

#endif
