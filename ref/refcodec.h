/* refcodec -- independent reference encoder / decoder for the CoAP message formats.
 *
 * Written from the RFC texts only (no libcoap headers, no libcoap code):
 *   RFC 7252 section 3      datagram format (Ver/T/TKL, Code, Message ID, Token, Options, 0xFF, Payload),
 *                           3.1 option delta / length nibbles 0-12 / 13 / 14 / 15(reserved), 4.1 Empty message
 *   RFC 8323 section 3.2    stream format: Len nibble 0-12 / 13 (+13, 1 byte) / 14 (+269, 2 bytes) /
 *                           15 (+65805, 4 bytes), TKL, Code, Token, Options, Payload; Len counts Options+Payload
 *                 4.2       WebSocket format: same with Len = 0, the frame gives the length
 *   RFC 8974 section 2.1    TKL 0-12 direct, 13 (+13, 1 byte), 14 (+269, 2 bytes), 15 reserved
 *   option value length limits: RFC 7252 5.10 table 4, RFC 7641 (Observe), RFC 7959 (Block1/2, Size2),
 *                           RFC 8613 (OSCORE), RFC 8768 (Hop-Limit), RFC 9175 (Echo, Request-Tag),
 *                           RFC 7967 (No-Response); RFC 8323 5.3-5.6 + RFC 8974 for the signalling options
 *
 * Deliberately the dumbest correct thing: one pass, arrays, 64-bit arithmetic so that nothing can wrap.
 * Implementation limits of a real stack (maximum PDU size, out of memory) are not modelled.
 *
 * Because of the +13 / +269 / +65805 biases every value has exactly one encoding, so the encoder's
 * "minimal-length" form is the only form and decode(encode(m)) == m, encode(decode(b)) == b.
 */
#ifndef REFCODEC_H
#define REFCODEC_H
#include <stddef.h>
#include <stdint.h>

enum rc_framing { RC_UDP = 0, RC_TCP = 1, RC_WS = 2 };

enum rc_reason {
  RC_OK = 0,
  RC_HDR_SHORT,         /* fewer bytes than the fixed header (UDP 4; TCP 2/3/4/6; WS 2) */
  RC_VERSION,           /* UDP: Ver != 1 */
  RC_TKL_RESERVED,      /* TKL 15 (with RC_F_TKL_7252: 9..15) */
  RC_TOKEN_TRUNC,       /* extended token length bytes or the token itself not inside the message */
  RC_EMPTY_NOT_EMPTY,   /* Code 0.00 with a token, options or payload */
  RC_OPT_DELTA_15,      /* delta nibble 15 in a byte that is not 0xFF */
  RC_OPT_LEN_15,        /* length nibble 15 */
  RC_OPT_HDR_TRUNC,     /* extended delta / length bytes not inside the message */
  RC_OPT_NUM_OVER,      /* running option number > 65535 */
  RC_OPT_VALUE_TRUNC,   /* option value not inside the message */
  RC_OPT_LEN_LIMIT,     /* value length outside the limits defined for that option */
  RC_MARKER_NO_PAYLOAD, /* 0xFF followed by nothing */
  RC_STREAM_SHORT,      /* TCP: fewer bytes than the length prefix + token announce */
  RC_STREAM_LONG,       /* TCP: bytes after the end of the message (not exactly one message) */
  RC_WS_LEN_NONZERO,    /* WS: Len nibble != 0 */
  RC_REF_CAPACITY,      /* more options than RC_MAX_OPTS: limit of this reference, not a verdict */
  RC_NREASONS
};

/* decode flags */
#define RC_F_TKL_7252 1u   /* plain RFC 7252 reading: TKL 9..15 reserved (default is RFC 8974: 0..12, 13, 14) */
#define RC_F_WS_ANY_LEN 2u /* do not insist on Len == 0 in WebSocket framing */
#define RC_F_NO_LIMITS 4u  /* skip the per-option length table */

#define RC_MAX_OPTS 2048

struct rc_opt {
  uint32_t number;
  size_t hdr_off;  /* offset of the option's first byte; delta ext bytes follow, then length ext bytes */
  uint8_t dext_n;  /* 0 / 1 / 2 extended delta bytes */
  uint8_t lext_n;  /* 0 / 1 / 2 extended length bytes */
  size_t val_off;
  size_t len;
};

struct rc_msg {
  enum rc_framing framing;
  /* decoded fields (offsets are into the input buffer) */
  uint8_t ver;   /* UDP only */
  uint8_t type;  /* UDP only */
  uint8_t code;
  uint16_t mid;  /* UDP only */
  uint8_t tkl_nibble;
  uint8_t len_nibble;  /* TCP / WS */
  uint8_t lenext_n;    /* TCP: 0 / 1 / 2 / 4 extended length bytes at offset 1 */
  uint64_t stream_len; /* TCP: decoded Len (options + payload incl. marker) */
  size_t code_off;
  size_t tklext_off;   /* offset of the extended token length bytes */
  uint8_t tklext_n;    /* 0 / 1 / 2 */
  size_t token_off;
  size_t token_len;
  size_t opts_off;     /* first byte after the token */
  int nopts;
  struct rc_opt opts[RC_MAX_OPTS];
  size_t opts_end;     /* offset of the marker if present, else end of message */
  int has_marker;
  size_t payload_off;
  size_t payload_len;
  /* verdict */
  enum rc_reason reason;
  size_t err_off;       /* offset the reason refers to */
  uint32_t bad_number;  /* RC_OPT_LEN_LIMIT / RC_OPT_NUM_OVER: option number (NUM_OVER: clamped to 2^32-1) */
  size_t bad_len;       /* RC_OPT_LEN_LIMIT: the offending length */
  int bad_below_min;    /* RC_OPT_LEN_LIMIT: 1 = shorter than the minimum, 0 = longer than the maximum */
  /* Set when the message is structurally well-formed but the RFCs cited above do not say whether it
   * has to be accepted: a signalling code (7.xx) over datagram framing with options whose lengths the
   * base and the signalling tables judge differently, or a signalling message 7.01-7.05 carrying an
   * unknown critical (odd) option.  Callers comparing accept/reject should skip such inputs; the
   * decoded content is still valid. */
  int unspecified;
};

/* Decodes exactly one message occupying buf[0..len).  Returns out->reason (RC_OK = well-formed). */
enum rc_reason rc_decode(enum rc_framing framing, const uint8_t *buf, size_t len, unsigned flags, struct rc_msg *out);

/* Stream helper (RFC 8323 3.2): given the first `avail` bytes of a TCP stream, returns 1 and the total
 * size of the first message in *total if the prefix is long enough to tell, 0 if more bytes are
 * needed, -1 if the prefix can never start a message (TKL 15). */
int rc_tcp_frame_size(const uint8_t *buf, size_t avail, uint64_t *total);

/* Length limits of an option value; returns 1 and fills min/max if the (code, number) pair has defined
 * limits, 0 if not.  Signalling codes 7.01-7.05 use the RFC 8323 tables, everything else the base table. */
int rc_opt_limits(uint8_t code, uint32_t number, size_t *min, size_t *max);

const char *rc_reason_name(enum rc_reason r);
const char *rc_framing_name(enum rc_framing f);

/* ---- encoder ---- */
struct rc_eopt {
  uint32_t number;
  const uint8_t *val;
  size_t len;
};
struct rc_emsg {
  enum rc_framing framing;
  uint8_t type;  /* UDP */
  uint8_t code;
  uint16_t mid;  /* UDP */
  const uint8_t *token;
  size_t token_len;   /* 0..65804 */
  const struct rc_eopt *opts; /* must be in non-decreasing number order */
  int nopts;
  const uint8_t *payload;
  size_t payload_len; /* 0 = no marker */
};
/* Returns the number of bytes written, 0 on error (options unsorted, number > 65535, token or value too
 * long for the format, cap too small). */
size_t rc_encode(const struct rc_emsg *m, uint8_t *out, size_t cap);
/* Writes the RFC 8323 3.2 header (Len/TKL byte, extended length, Code) for a message whose options +
 * payload occupy `len` bytes; returns 2 / 3 / 4 / 6. `out` needs 6 bytes. */
size_t rc_put_tcp_header(uint8_t *out, uint64_t len, uint8_t tkl_nibble, uint8_t code);
/* Stable sort by option number (insertion sort). */
void rc_sort_opts(struct rc_eopt *opts, int n);

/* Returns 0 if the built-in vectors and round trips hold, else the line number of the failing check. */
int rc_selftest(void);

#endif
