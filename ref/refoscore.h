/* refoscore -- independent reference implementation of OSCORE (RFC 8613), used as oracle by C14 / C15.
 *
 * Written from the RFC text, shares no code with libcoap:
 *   - 3.2   key derivation: HKDF-SHA-256 (OpenSSL EVP_KDF "HKDF") over the CBOR `info` array
 *   - 5     COSE_Encrypt0: external_aad / Enc_structure (5.4), AEAD nonce (5.2), plaintext (5.3)
 *   - 6     compressed COSE object in the OSCORE option value (flag byte, Partial IV, kid context, kid)
 *   - 4.1   Class E / U option split (Figure 5), Observe (4.1.3.5), outer code (4.2)
 *   - 8     protect / verify, requests and responses (response with or without its own Partial IV)
 *   - AEAD  AES-CCM-16-64-128 through OpenSSL EVP_aes_128_ccm (tag 8, nonce 13)  [libcoap: GnuTLS/nettle]
 *
 * Everything is plain data + linear scans.  Only the algorithm pair mandated by RFC 8613
 * (AES-CCM-16-64-128 = COSE alg 10, HKDF SHA-256) is implemented.  No replay window here (see refwin).
 *
 * Message model: a CoAP message without its transport header = (code, option list sorted by option
 * number with repeated numbers in their original order, payload).  refoscore_msg_t owns its bytes
 * (values are offsets into msg->store) so a message can be copied by plain assignment.
 *
 * All functions return REFOSCORE_OK (0) or a negative REFOSCORE_E_* code; refoscore_strerror() names it.
 */
#ifndef REFOSCORE_H
#define REFOSCORE_H
#include <stddef.h>
#include <stdint.h>

#define REFOSCORE_MAX_ID 7       /* nonce length 13 - 6 (RFC 8613 3.3) */
#define REFOSCORE_MAX_IDCTX 64
#define REFOSCORE_MAX_SECRET 64
#define REFOSCORE_MAX_OPTS 48
#define REFOSCORE_STORE 2560     /* bytes of option values + payload one message can hold */
#define REFOSCORE_KEY_LEN 16
#define REFOSCORE_NONCE_LEN 13
#define REFOSCORE_TAG_LEN 8
#define REFOSCORE_ALG_AES_CCM_16_64_128 10

/* CoAP option numbers the class table knows by name */
#define REFOSCORE_OPT_URI_HOST 3
#define REFOSCORE_OPT_OBSERVE 6
#define REFOSCORE_OPT_URI_PORT 7
#define REFOSCORE_OPT_OSCORE 9
#define REFOSCORE_OPT_HOP_LIMIT 16
#define REFOSCORE_OPT_PROXY_URI 35
#define REFOSCORE_OPT_PROXY_SCHEME 39

enum {
  REFOSCORE_OK = 0,
  REFOSCORE_E_INPUT = -1,          /* caller error: id too long, NULL, Proxy-Uri / OSCORE option in the message to protect ... */
  REFOSCORE_E_TOOBIG = -2,         /* does not fit REFOSCORE_STORE / REFOSCORE_MAX_OPTS / caller buffer */
  REFOSCORE_E_CRYPTO = -3,         /* OpenSSL failure other than a tag mismatch */
  REFOSCORE_E_COAP_MALFORMED = -4, /* datagram is not a well-formed RFC 7252 message */
  REFOSCORE_E_NOT_OSCORE = -5,     /* no OSCORE option in the outer message */
  REFOSCORE_E_DUP_OSCORE = -6,     /* more than one OSCORE option */
  REFOSCORE_E_OPTION_MALFORMED = -7, /* OSCORE option value does not decompress (6.1): reserved bits, n>5, lengths */
  REFOSCORE_E_NO_PIV = -8,         /* request without Partial IV */
  REFOSCORE_E_NO_KID = -9,         /* request without kid */
  REFOSCORE_E_KID_MISMATCH = -10,  /* kid is not the Recipient ID of this context */
  REFOSCORE_E_KIDCTX_MISMATCH = -11, /* kid context present and different from this context's ID Context */
  REFOSCORE_E_NO_CIPHERTEXT = -12, /* payload shorter than the AEAD tag */
  REFOSCORE_E_AEAD = -13,          /* tag verification failed */
  REFOSCORE_E_PLAINTEXT_MALFORMED = -14, /* decrypted plaintext is not code||options||[0xff payload] */
  REFOSCORE_E_OBSERVE = -15,       /* inner Observe in a response to a non-Observe request (8.4) */
  REFOSCORE_E_OPTION_TRAILING = -16 /* OSCORE option value has bytes left after the last field its flag byte announces */
};
const char *refoscore_strerror(int err);

/* ---------------------------------------------------------------- messages ---- */
typedef struct refoscore_opt {
  uint16_t num; /* option number */
  uint16_t len; /* value length */
  uint16_t off; /* value = msg->store + off */
} refoscore_opt_t;

typedef struct refoscore_msg {
  uint8_t code;
  int nopts;
  refoscore_opt_t opts[REFOSCORE_MAX_OPTS]; /* ascending num; equal numbers keep insertion order */
  uint16_t payload_off, payload_len;        /* payload = store + payload_off; payload_len 0 = none */
  uint16_t store_used;
  uint8_t store[REFOSCORE_STORE];
} refoscore_msg_t;

void refoscore_msg_init(refoscore_msg_t *m, uint8_t code);
/* insert (copy) an option keeping ascending order; a repeated number goes after the existing ones */
int refoscore_msg_add_opt(refoscore_msg_t *m, unsigned num, const void *val, size_t len);
int refoscore_msg_set_payload(refoscore_msg_t *m, const void *p, size_t len);
static inline const uint8_t *refoscore_opt_val(const refoscore_msg_t *m, int i) { return m->store + m->opts[i].off; }
static inline const uint8_t *refoscore_payload(const refoscore_msg_t *m) { return m->store + m->payload_off; }
/* index of the first option with this number, or -1 */
int refoscore_msg_find(const refoscore_msg_t *m, unsigned num);
/* 1 if code, option list (numbers, values, order) and payload are identical */
int refoscore_msg_equal(const refoscore_msg_t *a, const refoscore_msg_t *b);
/* "code=0.01 opts=[3:6c6f.. 11:7476] payload(5)=48656c6c6f" into dst (always terminated); returns dst */
char *refoscore_msg_str(const refoscore_msg_t *m, char *dst, size_t dstlen);

/* RFC 7252 section 3 UDP framing (ver 1).  encode: returns datagram length or <0.  Options are written with
 * minimal delta/length extension bytes, the payload marker only when payload_len > 0. */
int refoscore_coap_encode(const refoscore_msg_t *m, uint8_t type, uint16_t mid, const uint8_t *token, size_t tkl,
                          uint8_t *buf, size_t cap);
/* decode: strict (ver must be 1, TKL <= 8, no nibble 15, marker must be followed by >= 1 byte, empty message
 * (code 0.00) must be 4 bytes).  type/mid/token/tkl may be NULL. */
int refoscore_coap_decode(const uint8_t *buf, size_t len, refoscore_msg_t *m, uint8_t *type, uint16_t *mid,
                          uint8_t *token, size_t *tkl);
/* options||[0xff payload] part only (used for the plaintext, which is code||this) */
int refoscore_coap_encode_body(const refoscore_msg_t *m, uint8_t *buf, size_t cap);
int refoscore_coap_decode_body(const uint8_t *buf, size_t len, refoscore_msg_t *m);

/* ---------------------------------------------------------------- security context (3.1, 3.2) ---- */
typedef struct refoscore_params {
  const uint8_t *master_secret; size_t master_secret_len;
  const uint8_t *master_salt;   size_t master_salt_len;   /* NULL / 0 = absent (HKDF with the empty salt) */
  const uint8_t *sender_id;     size_t sender_id_len;     /* 0..7 bytes, may be empty */
  const uint8_t *recipient_id;  size_t recipient_id_len;
  const uint8_t *id_context;    size_t id_context_len;    /* used iff has_id_context */
  int has_id_context;                                      /* 0: `nil` in the HKDF info, no kid context on the wire */
} refoscore_params_t;

typedef struct refoscore_ctx {
  uint8_t sender_id[REFOSCORE_MAX_ID];       size_t sender_id_len;
  uint8_t recipient_id[REFOSCORE_MAX_ID];    size_t recipient_id_len;
  uint8_t id_context[REFOSCORE_MAX_IDCTX];   size_t id_context_len; int has_id_context;
  uint8_t sender_key[REFOSCORE_KEY_LEN];
  uint8_t recipient_key[REFOSCORE_KEY_LEN];
  uint8_t common_iv[REFOSCORE_NONCE_LEN];
} refoscore_ctx_t;

/* Derive Sender Key, Recipient Key and Common IV (3.2.1).  The peer's context is the same call with
 * sender_id and recipient_id exchanged. */
int refoscore_derive(const refoscore_params_t *p, refoscore_ctx_t *out);
/* the mirror image (sender <-> recipient) of an already derived context; no HKDF needed */
void refoscore_mirror(const refoscore_ctx_t *in, refoscore_ctx_t *out);

/* ---------------------------------------------------------------- building blocks ---- */
/* HKDF-SHA-256 extract-and-expand */
int refoscore_hkdf_sha256(const uint8_t *salt, size_t salt_len, const uint8_t *ikm, size_t ikm_len,
                          const uint8_t *info, size_t info_len, uint8_t *okm, size_t okm_len);
/* info = [id, id_context / nil, alg_aead, type, L] (3.2.1); returns length or <0 */
int refoscore_hkdf_info(const uint8_t *id, size_t id_len, const uint8_t *id_context, size_t id_context_len,
                        int has_id_context, int alg, const char *type, size_t L, uint8_t *buf, size_t cap);
/* minimal-length big-endian Partial IV; 0 -> one byte 0x00 (5. / 6.1).  returns length 1..5, or <0 if piv >= 2^40 */
int refoscore_piv_encode(uint64_t piv, uint8_t out[5]);
uint64_t refoscore_piv_decode(const uint8_t *piv, size_t len);
/* AEAD nonce (5.2) from the ID of whoever generated the Partial IV */
int refoscore_nonce(const uint8_t *id_piv, size_t id_len, const uint8_t *piv, size_t piv_len,
                    const uint8_t common_iv[REFOSCORE_NONCE_LEN], uint8_t nonce[REFOSCORE_NONCE_LEN]);
/* external_aad (5.4): the CBOR array [1, [alg], request_kid, request_piv, h''] (not yet bstr-wrapped) */
int refoscore_external_aad(const uint8_t *req_kid, size_t kid_len, const uint8_t *req_piv, size_t piv_len,
                           uint8_t *buf, size_t cap);
/* AAD = Enc_structure ["Encrypt0", h'', bstr(external_aad)] */
int refoscore_aad(const uint8_t *req_kid, size_t kid_len, const uint8_t *req_piv, size_t piv_len, uint8_t *buf,
                  size_t cap);
/* AES-CCM-16-64-128.  encrypt: out = ciphertext || tag (pt_len + 8 bytes).  decrypt: in = ciphertext || tag,
 * returns REFOSCORE_E_AEAD on tag mismatch. */
int refoscore_aead_encrypt(const uint8_t key[16], const uint8_t nonce[13], const uint8_t *aad, size_t aad_len,
                           const uint8_t *pt, size_t pt_len, uint8_t *out);
int refoscore_aead_decrypt(const uint8_t key[16], const uint8_t nonce[13], const uint8_t *aad, size_t aad_len,
                           const uint8_t *ct, size_t ct_len, uint8_t *pt);

/* OSCORE option value (6.1) */
typedef struct refoscore_optval {
  int has_piv;    uint8_t piv[5];  size_t piv_len;
  int has_kidctx; uint8_t kidctx[255]; size_t kidctx_len;
  int has_kid;    uint8_t kid[255]; size_t kid_len;
} refoscore_optval_t;
/* returns length (0 when no field is present: "all-zero flag byte => empty value") or <0 */
int refoscore_optval_encode(const refoscore_optval_t *v, uint8_t *buf, size_t cap);
int refoscore_optval_decode(const uint8_t *buf, size_t len, refoscore_optval_t *v);

/* Option class on the sending side (4.1, Figure 5 + RFC 8768 Hop-Limit): 'U' outer only, 'E' inner only,
 * 'B' Observe (both, 4.1.3.5).  Unknown options and the options Figure 5 marks E+U whose outer instance is
 * optional (Max-Age, Block1/2, Size1/2, No-Response) are 'E'.  Proxy-Uri is 'P' (must have been split by the
 * application, 4.1.3.3) and OSCORE itself 'O'; both are refused by refoscore_protect_*. */
char refoscore_sender_class(unsigned optnum);
/* 1 if the recipient must discard an *outer* instance of this option (Figure 5 column E is marked) */
int refoscore_outer_discarded(unsigned optnum);

/* ---------------------------------------------------------------- protect / unprotect (8.) ---- */
/* What both ends keep from the request to process its response(s). */
typedef struct refoscore_reqbind {
  uint8_t kid[REFOSCORE_MAX_ID]; size_t kid_len; /* request_kid: Sender ID of the requester */
  uint8_t piv[5]; size_t piv_len;                /* request_piv as on the wire */
  uint8_t nonce[REFOSCORE_NONCE_LEN];            /* nonce of the request (reused by a response without PIV) */
  int observe;                                   /* request had an Observe option */
} refoscore_reqbind_t;

/* 8.1.  `in`: the original request (any Class-U / Class-E options, no OSCORE, no Proxy-Uri).  `piv`: the Sender
 * Sequence Number to use (any value < 2^40, the caller owns uniqueness).  `out`: outer message: code POST (FETCH
 * with Observe), the Class-U options + OSCORE option, payload = ciphertext||tag.  The kid context is sent iff
 * the context has an ID Context.  `bind` (may be NULL) receives the request binding. */
int refoscore_protect_request(const refoscore_ctx_t *ctx, const refoscore_msg_t *in, uint64_t piv,
                              refoscore_msg_t *out, refoscore_reqbind_t *bind);
/* 8.3.  ctx is the responder's context; `req` the binding of the request being answered.  has_own_piv = 0: the
 * request's nonce is reused and the OSCORE option is empty; 1: nonce from (own Sender ID, own_piv), option carries
 * the Partial IV.  Outer code 2.04 (2.05 with Observe); a response's inner Observe is empty, the outer one keeps
 * the value given in `in`.  No kid, no kid context. */
int refoscore_protect_response(const refoscore_ctx_t *ctx, const refoscore_reqbind_t *req, const refoscore_msg_t *in,
                               int has_own_piv, uint64_t own_piv, refoscore_msg_t *out);

/* Extra facts about an unprotected message */
typedef struct refoscore_info {
  refoscore_optval_t optval; /* decompressed OSCORE option */
  refoscore_msg_t inner;     /* exactly the plaintext: code, Class-E options, payload */
} refoscore_info_t;

/* 8.2.  ctx is the recipient's (server's) context.  Checks kid == Recipient ID and, when a kid context is present,
 * that it equals the ID Context.  `merged`: the decrypted request as 8.2 step 7 builds it: inner options plus the
 * outer options that are not marked E in Figure 5 (outer Observe is discarded, the inner one is used), OSCORE
 * option removed.  `bind` / `info` may be NULL. */
int refoscore_unprotect_request(const refoscore_ctx_t *ctx, const refoscore_msg_t *outer, refoscore_msg_t *merged,
                                refoscore_reqbind_t *bind, refoscore_info_t *info);
/* 8.4.  ctx is the requester's (client's) context, `req` what it remembered.  A kid or kid context in a response
 * is ignored (RFC 8613 does not make the client check them).  An inner Observe (empty on the wire) is given the
 * value "three least significant bytes of the response's Partial IV" (4.1.3.5.2, a MAY) or stays empty when the
 * response has no Partial IV. */
int refoscore_unprotect_response(const refoscore_ctx_t *ctx, const refoscore_reqbind_t *req,
                                 const refoscore_msg_t *outer, refoscore_msg_t *merged, refoscore_info_t *info);

/* ---------------------------------------------------------------- self-test ---- */
/* Reproduces RFC 8613 Appendix C.1 - C.8 (6 key derivations incl. nonces, 3 requests, 2 responses; for the
 * messages also every intermediate value the RFC prints and the reverse direction).  Returns the number of
 * vectors reproduced (11) or -(index of the first failing vector + 1); *checks (may be NULL) counts single
 * comparisons.  Prints the reason to stderr on failure. */
int refoscore_selftest(int *checks);

/* The Appendix C message vectors as data, for harnesses that replay them against an implementation. */
typedef struct refoscore_vector {
  const char *name;                 /* "C.4" ... */
  int is_response;
  refoscore_params_t params;        /* context of the endpoint that protects this message */
  uint64_t piv;                     /* sender sequence number used (request: own; response: own if has_own_piv) */
  int has_own_piv;                  /* responses only */
  int request_vector;               /* responses: index of the vector holding the request being answered */
  const uint8_t *unprotected; size_t unprotected_len; /* full UDP datagrams as printed in the RFC */
  const uint8_t *protected_;  size_t protected_len;
} refoscore_vector_t;
int refoscore_vectors(const refoscore_vector_t **v); /* returns the count (5) */

#endif
