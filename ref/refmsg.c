/* refmsg -- list model of a CoAP message + reference wire encoder / decoder.  See refmsg.h.
 * Everything here is written from the RFC text (7252 s.3, 8323 s.3.2/4.2, 8974 s.2.1). */
#include "refmsg.h"
#include <stdio.h>
#include <stdlib.h>
#include <string.h>

static uint8_t *
dupbytes(const uint8_t *p, size_t len) {
  if (len == 0)
    return NULL;
  uint8_t *q = malloc(len);
  if (!q)
    abort();
  if (p)
    memcpy(q, p, len);
  else
    memset(q, 0, len);
  return q;
}

void
rm_init(rm_msg_t *m, unsigned type, unsigned code, unsigned mid) {
  memset(m, 0, sizeof *m);
  m->type = (uint8_t)type;
  m->code = (uint8_t)code;
  m->mid = (uint16_t)mid;
}

void
rm_clear(rm_msg_t *m) {
  free(m->tok);
  for (int i = 0; i < m->nopts; i++)
    free(m->opt[i].val);
  free(m->pay);
  memset(m, 0, sizeof *m);
}

void
rm_copy(rm_msg_t *dst, const rm_msg_t *src) {
  rm_init(dst, src->type, src->code, src->mid);
  dst->tok_len = src->tok_len;
  dst->tok = dupbytes(src->tok, src->tok_len);
  dst->nopts = src->nopts;
  for (int i = 0; i < src->nopts; i++) {
    dst->opt[i].num = src->opt[i].num;
    dst->opt[i].len = src->opt[i].len;
    dst->opt[i].val = dupbytes(src->opt[i].val, src->opt[i].len);
  }
  dst->pay_len = src->pay_len;
  dst->pay = dupbytes(src->pay, src->pay_len);
}

/* ---- edits ---- */
void
rm_set_token(rm_msg_t *m, const uint8_t *p, size_t len) {
  uint8_t *n = dupbytes(p, len);
  free(m->tok);
  m->tok = n;
  m->tok_len = len;
}

void
rm_set_payload(rm_msg_t *m, const uint8_t *p, size_t len) {
  uint8_t *n = dupbytes(p, len);
  free(m->pay);
  m->pay = n;
  m->pay_len = len;
}

int
rm_insert(rm_msg_t *m, uint32_t num, const uint8_t *p, size_t len) {
  if (m->nopts >= RM_MAX_OPTS)
    return -1;
  int pos = 0;
  while (pos < m->nopts && m->opt[pos].num <= num)
    pos++;
  for (int i = m->nopts; i > pos; i--)
    m->opt[i] = m->opt[i - 1];
  m->opt[pos].num = num;
  m->opt[pos].len = (uint32_t)len;
  m->opt[pos].val = dupbytes(p, len);
  m->nopts++;
  return pos;
}

int
rm_find(const rm_msg_t *m, uint32_t num) {
  for (int i = 0; i < m->nopts; i++)
    if (m->opt[i].num == num)
      return i;
  return -1;
}

int
rm_count(const rm_msg_t *m, uint32_t num) {
  int n = 0;
  for (int i = 0; i < m->nopts; i++)
    if (m->opt[i].num == num)
      n++;
  return n;
}

uint32_t
rm_last_num(const rm_msg_t *m) {
  return m->nopts ? m->opt[m->nopts - 1].num : 0;
}

int
rm_update(rm_msg_t *m, uint32_t num, const uint8_t *p, size_t len) {
  int i = rm_find(m, num);
  if (i < 0)
    return -1;
  uint8_t *n = dupbytes(p, len);
  free(m->opt[i].val);
  m->opt[i].val = n;
  m->opt[i].len = (uint32_t)len;
  return i;
}

int
rm_remove(rm_msg_t *m, uint32_t num) {
  int i = rm_find(m, num);
  if (i < 0)
    return -1;
  free(m->opt[i].val);
  for (int j = i; j + 1 < m->nopts; j++)
    m->opt[j] = m->opt[j + 1];
  m->nopts--;
  memset(&m->opt[m->nopts], 0, sizeof m->opt[0]);
  return i;
}

/* ---- sizes ---- */
size_t
rm_tok_wire_len(size_t tok_len) {
  if (tok_len <= 12)
    return tok_len; /* TKL 0..8 by RFC 7252; 9..12 are expressible in the nibble under RFC 8974 */
  if (tok_len <= 268)
    return tok_len + 1;
  return tok_len + 2;
}

static size_t
ext_len(uint32_t v) {
  if (v <= 12)
    return 0;
  if (v <= 268)
    return 1;
  return 2;
}

size_t
rm_opt_hdr_len(uint32_t delta, uint32_t len) {
  return 1 + ext_len(delta) + ext_len(len);
}

size_t
rm_opt_wire_len(uint32_t delta, uint32_t len) {
  return rm_opt_hdr_len(delta, len) + len;
}

size_t
rm_opts_wire_len(const rm_msg_t *m) {
  size_t n = 0;
  uint32_t prev = 0;
  for (int i = 0; i < m->nopts; i++) {
    n += rm_opt_wire_len(m->opt[i].num - prev, m->opt[i].len);
    prev = m->opt[i].num;
  }
  return n;
}

size_t
rm_rest_len(const rm_msg_t *m) {
  return rm_opts_wire_len(m) + (m->pay_len ? 1 + m->pay_len : 0);
}

size_t
rm_body_len(const rm_msg_t *m) {
  return rm_tok_wire_len(m->tok_len) + rm_rest_len(m);
}

size_t
rm_hdr_len(const rm_msg_t *m, enum rm_framing f) {
  if (f == RM_UDP)
    return 4;
  if (f == RM_WS)
    return 2;
  size_t rest = rm_rest_len(m);
  if (rest <= 12)
    return 2;
  if (rest <= 268)
    return 3;
  if (rest <= 65804)
    return 4;
  return 6;
}

size_t
rm_wire_len(const rm_msg_t *m, enum rm_framing f) {
  return rm_hdr_len(m, f) + rm_body_len(m);
}

/* ---- encoder ---- */
static unsigned
nibble(uint32_t v) {
  if (v <= 12)
    return v;
  if (v <= 268)
    return 13;
  return 14;
}

static size_t
put_ext(uint8_t *o, uint32_t v) {
  if (v <= 12)
    return 0;
  if (v <= 268) {
    o[0] = (uint8_t)(v - 13);
    return 1;
  }
  o[0] = (uint8_t)((v - 269) >> 8);
  o[1] = (uint8_t)((v - 269) & 0xff);
  return 2;
}

size_t
rm_encode_body(const rm_msg_t *m, uint8_t *out, size_t cap) {
  size_t need = rm_body_len(m);
  if (need > cap || m->tok_len > RM_MAX_TOKEN)
    return 0;
  size_t o = 0;
  o += put_ext(out + o, (uint32_t)m->tok_len);
  if (m->tok_len) {
    memcpy(out + o, m->tok, m->tok_len);
    o += m->tok_len;
  }
  uint32_t prev = 0;
  for (int i = 0; i < m->nopts; i++) {
    const rm_opt_t *op = &m->opt[i];
    uint32_t delta = op->num - prev;
    if (op->num < prev || op->num > 65535 || op->len > 65535 + 269)
      return 0;
    out[o++] = (uint8_t)(nibble(delta) << 4 | nibble(op->len));
    o += put_ext(out + o, delta);
    o += put_ext(out + o, op->len);
    if (op->len) {
      memcpy(out + o, op->val, op->len);
      o += op->len;
    }
    prev = op->num;
  }
  if (m->pay_len) {
    out[o++] = 0xFF;
    memcpy(out + o, m->pay, m->pay_len);
    o += m->pay_len;
  }
  return o == need ? o : 0;
}

size_t
rm_encode(const rm_msg_t *m, enum rm_framing f, uint8_t *out, size_t cap) {
  size_t total = rm_wire_len(m, f);
  if (total > cap || m->tok_len > RM_MAX_TOKEN)
    return 0;
  unsigned tkl = nibble((uint32_t)m->tok_len);
  size_t o = 0;
  if (f == RM_UDP) {
    out[o++] = (uint8_t)(1u << 6 | (m->type & 3u) << 4 | tkl);
    out[o++] = m->code;
    out[o++] = (uint8_t)(m->mid >> 8);
    out[o++] = (uint8_t)(m->mid & 0xff);
  } else if (f == RM_WS) {
    out[o++] = (uint8_t)(0u << 4 | tkl);
    out[o++] = m->code;
  } else {
    size_t rest = rm_rest_len(m);
    if (rest <= 12) {
      out[o++] = (uint8_t)(rest << 4 | tkl);
    } else if (rest <= 268) {
      out[o++] = (uint8_t)(13u << 4 | tkl);
      out[o++] = (uint8_t)(rest - 13);
    } else if (rest <= 65804) {
      out[o++] = (uint8_t)(14u << 4 | tkl);
      out[o++] = (uint8_t)((rest - 269) >> 8);
      out[o++] = (uint8_t)((rest - 269) & 0xff);
    } else {
      size_t v = rest - 65805;
      if (v > 0xFFFFFFFFu)
        return 0;
      out[o++] = (uint8_t)(15u << 4 | tkl);
      out[o++] = (uint8_t)(v >> 24);
      out[o++] = (uint8_t)(v >> 16);
      out[o++] = (uint8_t)(v >> 8);
      out[o++] = (uint8_t)v;
    }
    out[o++] = m->code;
  }
  size_t b = rm_encode_body(m, out + o, cap - o);
  if (b != rm_body_len(m))
    return 0;
  return o + b;
}

/* ---- decoder ---- */
#define REJECT(msg)                                                                                                    \
  do {                                                                                                                 \
    if (why)                                                                                                           \
      *why = (msg);                                                                                                    \
    rm_clear(out);                                                                                                     \
    return 0;                                                                                                          \
  } while (0)

int
rm_decode(enum rm_framing f, const uint8_t *b, size_t len, rm_msg_t *out, const char **why) {
  rm_init(out, 0, 0, 0);
  if (why)
    *why = NULL;
  size_t o = 0;
  unsigned tkl;
  size_t declared_rest = (size_t)-1; /* TCP only */
  if (f == RM_UDP) {
    if (len < 4)
      REJECT("shorter than the 4-byte header");
    if ((b[0] >> 6) != 1)
      REJECT("version is not 1");
    out->type = (b[0] >> 4) & 3;
    tkl = b[0] & 15;
    out->code = b[1];
    out->mid = (uint16_t)(b[2] << 8 | b[3]);
    o = 4;
  } else {
    if (len < 2)
      REJECT("shorter than the 2-byte header");
    unsigned ln = b[0] >> 4;
    tkl = b[0] & 15;
    o = 1;
    if (f == RM_WS) {
      if (ln != 0)
        REJECT("WebSocket framing with Len nibble != 0");
    } else if (ln <= 12) {
      declared_rest = ln;
    } else if (ln == 13) {
      if (len < o + 1 + 1)
        REJECT("truncated extended length");
      declared_rest = (size_t)b[o] + 13;
      o += 1;
    } else if (ln == 14) {
      if (len < o + 2 + 1)
        REJECT("truncated extended length");
      declared_rest = ((size_t)b[o] << 8 | b[o + 1]) + 269;
      o += 2;
    } else {
      if (len < o + 4 + 1)
        REJECT("truncated extended length");
      declared_rest = ((size_t)b[o] << 24 | (size_t)b[o + 1] << 16 | (size_t)b[o + 2] << 8 | b[o + 3]) + 65805;
      o += 4;
    }
    if (len < o + 1)
      REJECT("no code byte");
    out->code = b[o++];
  }
  /* token length, RFC 8974 */
  size_t tok_len;
  if (tkl <= 12) {
    tok_len = tkl;
  } else if (tkl == 13) {
    if (len < o + 1)
      REJECT("truncated extended token length");
    tok_len = (size_t)b[o] + 13;
    o += 1;
  } else if (tkl == 14) {
    if (len < o + 2)
      REJECT("truncated extended token length");
    tok_len = ((size_t)b[o] << 8 | b[o + 1]) + 269;
    o += 2;
  } else {
    REJECT("TKL 15 is reserved");
  }
  if (len - o < tok_len)
    REJECT("token runs past the end of the message");
  rm_set_token(out, b + o, tok_len);
  o += tok_len;
  if (f == RM_TCP && declared_rest != len - o)
    REJECT("Len does not match the bytes following the token");
  if (out->code == 0 && f == RM_UDP && (tok_len != 0 || len != o))
    REJECT("Empty message carries a token or data");
  /* options */
  uint32_t num = 0;
  while (o < len) {
    if (b[o] == 0xFF) {
      o++;
      if (o == len)
        REJECT("payload marker followed by zero-length payload");
      rm_set_payload(out, b + o, len - o);
      o = len;
      break;
    }
    unsigned dn = b[o] >> 4, lnib = b[o] & 15;
    o++;
    if (dn == 15 || lnib == 15)
      REJECT("option delta/length nibble 15 is reserved");
    uint32_t delta = dn, olen = lnib;
    if (dn == 13) {
      if (len - o < 1)
        REJECT("truncated option delta extension");
      delta = (uint32_t)b[o] + 13;
      o += 1;
    } else if (dn == 14) {
      if (len - o < 2)
        REJECT("truncated option delta extension");
      delta = ((uint32_t)b[o] << 8 | b[o + 1]) + 269;
      o += 2;
    }
    if (lnib == 13) {
      if (len - o < 1)
        REJECT("truncated option length extension");
      olen = (uint32_t)b[o] + 13;
      o += 1;
    } else if (lnib == 14) {
      if (len - o < 2)
        REJECT("truncated option length extension");
      olen = ((uint32_t)b[o] << 8 | b[o + 1]) + 269;
      o += 2;
    }
    if ((uint64_t)num + delta > 65535)
      REJECT("option number exceeds 65535");
    num += delta;
    if (len - o < olen)
      REJECT("option value runs past the end of the message");
    if (out->nopts >= RM_MAX_OPTS)
      REJECT("more options than the reference model holds");
    /* append (numbers are non-decreasing by construction, so this is the stable-sorted position) */
    out->opt[out->nopts].num = num;
    out->opt[out->nopts].len = olen;
    out->opt[out->nopts].val = dupbytes(b + o, olen);
    out->nopts++;
    o += olen;
  }
  return 1;
}

/* ---- comparison ---- */
const char *
rm_diff(const rm_msg_t *a, const rm_msg_t *b, int cmp_type_mid, int *opt_idx) {
  if (opt_idx)
    *opt_idx = -1;
  if (cmp_type_mid && a->type != b->type)
    return "type";
  if (a->code != b->code)
    return "code";
  if (cmp_type_mid && a->mid != b->mid)
    return "mid";
  if (a->tok_len != b->tok_len)
    return "token-len";
  if (a->tok_len && memcmp(a->tok, b->tok, a->tok_len))
    return "token";
  int n = a->nopts < b->nopts ? a->nopts : b->nopts;
  for (int i = 0; i < n; i++) {
    if (opt_idx)
      *opt_idx = i;
    if (a->opt[i].num != b->opt[i].num)
      return "opt-number";
    if (a->opt[i].len != b->opt[i].len)
      return "opt-len";
    if (a->opt[i].len && memcmp(a->opt[i].val, b->opt[i].val, a->opt[i].len))
      return "opt-value";
  }
  if (a->nopts != b->nopts) {
    if (opt_idx)
      *opt_idx = n < a->nopts || n < b->nopts ? n : -1;
    return "opt-count";
  }
  if (opt_idx)
    *opt_idx = -1;
  if (a->pay_len != b->pay_len)
    return "payload-len";
  if (a->pay_len && memcmp(a->pay, b->pay, a->pay_len))
    return "payload";
  return NULL;
}

/* ---- classes ---- */
const char *
rm_class(uint32_t v) {
  if (v <= 12)
    return "0-12";
  if (v <= 268)
    return "13-268";
  return "269+";
}

const char *
rm_len_form(size_t rest) {
  if (rest <= 12)
    return "len0-12";
  if (rest <= 268)
    return "len8";
  if (rest <= 65804)
    return "len16";
  return "len32";
}

const char *
rm_tkl_form(size_t tok_len) {
  if (tok_len <= 12)
    return "tkl0-12";
  if (tok_len <= 268)
    return "tkl13";
  return "tkl14";
}

const char *
rm_framing_name(enum rm_framing f) {
  return f == RM_UDP ? "udp" : f == RM_TCP ? "tcp" : "ws";
}

static char g_cls[8][48];
static int g_cls_i;

const char *
rm_opt_class(const rm_msg_t *m, int i) {
  char *s = g_cls[g_cls_i++ & 7];
  if (i < 0 || i >= m->nopts) {
    snprintf(s, sizeof g_cls[0], "none");
    return s;
  }
  uint32_t prev = i ? m->opt[i - 1].num : 0;
  snprintf(s, sizeof g_cls[0], "delta-%s/len-%s", rm_class(m->opt[i].num - prev), rm_class(m->opt[i].len));
  return s;
}

const char *
rm_locate(const rm_msg_t *m, enum rm_framing f, size_t off, int *opt_idx) {
  if (opt_idx)
    *opt_idx = -1;
  size_t o = rm_hdr_len(m, f);
  if (off < o)
    return "hdr";
  o += rm_tok_wire_len(m->tok_len);
  if (off < o)
    return "token";
  uint32_t prev = 0;
  for (int i = 0; i < m->nopts; i++) {
    uint32_t delta = m->opt[i].num - prev, len = m->opt[i].len;
    char *s = g_cls[g_cls_i++ & 7];
    if (opt_idx)
      *opt_idx = i;
    /* first byte carries both nibbles: attribute it to the delta */
    if (off < o + 1 + ext_len(delta)) {
      snprintf(s, sizeof g_cls[0], "opt-delta-%s", rm_class(delta));
      return s;
    }
    o += 1 + ext_len(delta);
    if (off < o + ext_len(len)) {
      snprintf(s, sizeof g_cls[0], "opt-len-%s", rm_class(len));
      return s;
    }
    o += ext_len(len);
    if (off < o + len) {
      snprintf(s, sizeof g_cls[0], "opt-value-%s", rm_class(len));
      return s;
    }
    o += len;
    prev = m->opt[i].num;
  }
  if (opt_idx)
    *opt_idx = -1;
  if (m->pay_len) {
    if (off == o)
      return "marker";
    if (off < o + 1 + m->pay_len)
      return "payload";
  }
  return "beyond-end";
}

/* ---- option tables ---- */
struct optdef {
  uint32_t num, min, max;
  int repeatable;
};
/* RFC 7252 Table 4 unless noted */
static const struct optdef base_opts[] = {
    {1, 0, 8, 1},      /* If-Match */
    {3, 1, 255, 0},    /* Uri-Host */
    {4, 1, 8, 1},      /* ETag */
    {5, 0, 0, 0},      /* If-None-Match */
    {6, 0, 3, 0},      /* Observe, RFC 7641 */
    {7, 0, 2, 0},      /* Uri-Port */
    {8, 0, 255, 1},    /* Location-Path */
    {9, 0, 255, 0},    /* OSCORE, RFC 8613 */
    {11, 0, 255, 1},   /* Uri-Path */
    {12, 0, 2, 0},     /* Content-Format */
    {14, 0, 4, 0},     /* Max-Age */
    {15, 0, 255, 1},   /* Uri-Query */
    {16, 1, 1, 0},     /* Hop-Limit, RFC 8768 */
    {17, 0, 2, 0},     /* Accept */
    {19, 0, 3, 0},     /* Q-Block1, RFC 9177 */
    {20, 0, 255, 1},   /* Location-Query */
    {23, 0, 3, 0},     /* Block2, RFC 7959 */
    {27, 0, 3, 0},     /* Block1, RFC 7959 */
    {28, 0, 4, 0},     /* Size2, RFC 7959 */
    {31, 0, 3, 1},     /* Q-Block2, RFC 9177 */
    {35, 1, 1034, 0},  /* Proxy-Uri */
    {39, 1, 255, 0},   /* Proxy-Scheme */
    {60, 0, 4, 0},     /* Size1 */
    {252, 1, 40, 0},   /* Echo, RFC 9175 */
    {258, 0, 1, 0},    /* No-Response, RFC 7967 */
    {292, 0, 8, 1},    /* Request-Tag, RFC 9175 */
};

void
rm_opt_len_range(unsigned code, uint32_t num, uint32_t *min, uint32_t *max) {
  *min = 0;
  *max = 65535 + 269;
  if (code >= 0xE0) { /* 7.xx signalling: option numbers are per code, RFC 8323 5.3-5.6, RFC 8974 */
    switch (code) {
    case 0xE1: /* CSM */
      if (num == 2)
        *max = 4; /* Max-Message-Size */
      else if (num == 4)
        *max = 0; /* Block-Wise-Transfer */
      else if (num == 6)
        *max = 3; /* Extended-Token-Length, RFC 8974 */
      break;
    case 0xE2: /* Ping */
    case 0xE3: /* Pong */
      if (num == 2)
        *max = 0; /* Custody */
      break;
    case 0xE4: /* Release */
      if (num == 2) {
        *min = 1;
        *max = 255; /* Alternative-Address */
      } else if (num == 4)
        *max = 3; /* Hold-Off */
      break;
    case 0xE5: /* Abort */
      if (num == 2)
        *max = 2; /* Bad-CSM-Option */
      break;
    default:
      break;
    }
    return;
  }
  for (size_t i = 0; i < sizeof base_opts / sizeof base_opts[0]; i++)
    if (base_opts[i].num == num) {
      *min = base_opts[i].min;
      *max = base_opts[i].max;
      return;
    }
}

int
rm_opt_len_legal(unsigned code, uint32_t num, uint32_t len) {
  uint32_t mn, mx;
  rm_opt_len_range(code, num, &mn, &mx);
  return len >= mn && len <= mx;
}

int
rm_opt_repeatable(uint32_t num) {
  for (size_t i = 0; i < sizeof base_opts / sizeof base_opts[0]; i++)
    if (base_opts[i].num == num)
      return base_opts[i].repeatable;
  return -1;
}
