/* refobs -- boring reference automaton for RFC 7641 observation relationships as seen from the wire.
 *
 * One entry per (observer endpoint, resource, query).  The automaton is fed with
 *   - requests that reached the server (GET Observe:0 / Observe:1) together with the response the server
 *     emitted for them (RFC 7641 4.1: a 2.xx response carrying an Observe option means "added to the list
 *     of observers"; any other response means "not in the list"),
 *   - every response datagram the server emits towards an observer (notifications: RFC 7641 4.2, 4.4, 4.5),
 *   - Acknowledgements and Resets that reached the server (RFC 7641 4.5: a Reset removes the observer),
 *   - "transmission of a confirmable notification timed out" (RFC 7641 4.5: removes the observer),
 *   - what the application script did itself (resource deleted, observer's session dropped),
 * and answers with a verdict for each emitted notification.  Written from RFC 7641 and the property
 * statement only; no libcoap includes, arrays and linear scans.
 *
 * Order of Observe values: RFC 7641 3.4 / 4.4, 24-bit serial numbers:
 *   V1 is older than V2  iff  (V1 < V2 and V2 - V1 < 2^23) or (V1 > V2 and V1 - V2 > 2^23).
 * (The third, time based clause of 3.4 -- "T2 > T1 + 128 s" -- is a client side freshness rule and is not used.)
 */
#ifndef REFOBS_H
#define REFOBS_H
#include <stddef.h>
#include <stdint.h>

#define RO_MAXREG 24   /* (observer, resource, query) entries */
#define RO_MAXNOTE 96  /* notifications remembered per entry */
#define RO_MAXTOK 12   /* tokens ever used per entry */

enum ro_state { RO_NO = 0, RO_YES = 1, RO_MAYBE = 2 };

/* why an entry stopped being registered (also used for retired tokens) */
enum ro_cause {
  RO_C_NONE = 0,
  RO_C_CANCEL,  /* GET Observe:1 processed */
  RO_C_RST,     /* Reset in reply to a notification reached the server */
  RO_C_GIVEUP,  /* a confirmable notification timed out */
  RO_C_ERROR,   /* server sent a non-2.xx response for this registration */
  RO_C_SESSION, /* observer's session dropped by the server application */
  RO_C_DELETE,  /* resource deleted */
  RO_C_REREG,   /* token superseded by a re-registration with a new token */
  RO_C_NOANSWER /* registration request got no (usable) answer */
};
const char *ro_cause_name(int cause);

enum ro_verdict {
  RO_OK = 0,
  RO_IGNORED,             /* not a notification / not attributable (e.g. block-wise follow-up) */
  RO_V_UNKNOWN_TOKEN,     /* Observe option + a token this observer never used for a registration */
  RO_V_OLD_TOKEN,         /* new notification with a token that a re-registration replaced */
  RO_V_AFTER_DEREG,       /* new notification after the deregistering event was processed */
  RO_V_RETX_AFTER_DEREG,  /* retransmission of an earlier notification after deregistration was processed */
  RO_V_NOT_INCREASING,    /* Observe value not strictly newer than every earlier one for this entry */
  RO_V_EQUALS_REG_RESPONSE, /* Observe value equal to (not newer than) the one in a registration response that came
                             * after the previous notification: the change was signalled before that (re-)registration
                             * request was answered, the notification left afterwards with the same number */
  RO_V_REG_RESPONSE_OLDER,/* Observe value in a registration response older than an earlier notification */
  RO_V_NO_CON,            /* con_every-th consecutive non-confirmable notification */
  RO_V_NON_IN_CON_MODE,   /* con_every == 1 and a NON notification */
  RO_V_CON_IN_NON_MODE    /* never_con and a CON notification */
};

struct ro_note {
  int mid;
  int gen;      /* token generation it was sent with */
  int type;     /* 0 CON, 1 NON */
  uint32_t obs;
  int ntx;      /* transmissions seen */
  int acked;
  long val;     /* application value embedded in the payload (harness supplied), -1 unknown */
};

struct ro_tok {
  uint8_t tok[8];
  int tkl;
  int gen;
  int retired;  /* superseded or entry left while this token was current */
  int cause;    /* why retired */
};

struct ro_reg {
  int used;
  int observer, resource, query;
  int state;       /* enum ro_state */
  int cause;       /* cause of the last transition to RO_NO / RO_MAYBE */
  int rst_older;   /* the Reset that deregistered this entry answered an older notification than the latest */
  int gen;         /* generation of the current token (index into toks), -1 none */
  int ntoks;
  struct ro_tok toks[RO_MAXTOK];
  int have_obs;
  uint32_t last_obs;  /* newest Observe value ever emitted for this entry (any generation) */
  int obs_from_reg;   /* last_obs was last raised by a registration response, no notification has reached it yet */
  int non_run;        /* consecutive NON notifications since the last CON notification / (re)registration */
  int fails;          /* confirmable notifications that timed out since the last acknowledgement */
  int nnotes;
  struct ro_note notes[RO_MAXNOTE];
  long total_new;     /* distinct notifications emitted (not counting retransmissions / registration responses) */
  long mark_new;      /* value of total_new at ro_mark() */
  int state_at_mark;
  long last_val;      /* application value in the newest notification or registration response, -1 unknown */
  int reregs;         /* number of accepted registrations that replaced a live one with a new token */
};

/* information about one response datagram the server emitted */
struct ro_emit {
  int observer;
  int type;        /* 0 CON 1 NON 2 ACK */
  int code;        /* raw code byte */
  int mid;
  const uint8_t *tok;
  int tkl;
  int has_obs;
  uint32_t obs;
  long val;        /* application value parsed from the payload, -1 unknown */
};

typedef struct refobs {
  int con_every;   /* N: among N consecutive notifications one must be CON (6); 1 = all CON; 0 = no rule */
  int never_con;   /* documented "always non-confirmable" mode */
  int max_fail;    /* timed-out CON notifications that remove the observer (property: 1) */
  int nregs;
  struct ro_reg regs[RO_MAXREG];
  /* request being processed by the server right now */
  int in_req;
  int req_observer, req_resource, req_query, req_action; /* action: 0 register, 1 deregister, -1 other */
  uint8_t req_tok[8];
  int req_tkl;
  int req_answered;
  /* details of the last non-OK verdict of ro_emit */
  int v_cause;     /* enum ro_cause: the deregistering event the notification came after */
  int v_rst_older; /* that event was a Reset answering an older notification than the newest one */
} refobs_t;

void ro_init(refobs_t *o, int con_every, int never_con, int max_fail);

/* serial number order of RFC 7641 3.4: 1 iff a is older than b */
int ro_serial_older(uint32_t a, uint32_t b);

struct ro_reg *ro_find(refobs_t *o, int observer, int resource, int query);
/* entry and generation whose (current or retired) token equals tok; NULL if the observer never used it */
struct ro_reg *ro_find_token(refobs_t *o, int observer, const uint8_t *tok, int tkl, struct ro_tok **t);

/* a request from `observer` is handed to the server now / the server finished processing it */
void ro_request_begin(refobs_t *o, int observer, int resource, int query, int action, const uint8_t *tok, int tkl);
void ro_request_end(refobs_t *o);

/* the server emitted a response datagram; *reg_out (may be NULL) receives the entry it was attributed to */
int ro_emit(refobs_t *o, const struct ro_emit *e, struct ro_reg **reg_out);

/* an empty ACK / a RST from `observer` with this message id reached the server */
void ro_ack_delivered(refobs_t *o, int observer, int mid);
struct ro_reg *ro_rst_delivered(refobs_t *o, int observer, int mid);

/* the server reported that a confirmable message with this token to `observer` timed out */
struct ro_reg *ro_con_timed_out(refobs_t *o, int observer, const uint8_t *tok, int tkl);

/* application script events */
void ro_session_dropped(refobs_t *o, int observer);
void ro_resource_deleted(refobs_t *o, int resource);

/* per-round accounting: remember total_new and state of every entry */
void ro_mark(refobs_t *o);
#endif
