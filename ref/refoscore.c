/* refoscore.c -- see refoscore.h.  Written from RFC 8613 / RFC 7252 / RFC 8152 / RFC 5869 text only. */
#include "refoscore.h"

#include <stdio.h>
#include <string.h>

#include <openssl/core_names.h>
#include <openssl/evp.h>
#include <openssl/kdf.h>
#include <openssl/params.h>

/* ------------------------------------------------------------------------------------------ */
const char *
refoscore_strerror(int err) {
  switch (err) {
  case REFOSCORE_OK: return "ok";
  case REFOSCORE_E_INPUT: return "bad-input";
  case REFOSCORE_E_TOOBIG: return "too-big";
  case REFOSCORE_E_CRYPTO: return "crypto-error";
  case REFOSCORE_E_COAP_MALFORMED: return "coap-malformed";
  case REFOSCORE_E_NOT_OSCORE: return "no-oscore-option";
  case REFOSCORE_E_DUP_OSCORE: return "duplicate-oscore-option";
  case REFOSCORE_E_OPTION_MALFORMED: return "oscore-option-malformed";
  case REFOSCORE_E_NO_PIV: return "request-without-piv";
  case REFOSCORE_E_NO_KID: return "request-without-kid";
  case REFOSCORE_E_KID_MISMATCH: return "kid-mismatch";
  case REFOSCORE_E_KIDCTX_MISMATCH: return "kid-context-mismatch";
  case REFOSCORE_E_NO_CIPHERTEXT: return "ciphertext-shorter-than-tag";
  case REFOSCORE_E_AEAD: return "aead-tag-mismatch";
  case REFOSCORE_E_PLAINTEXT_MALFORMED: return "plaintext-malformed";
  case REFOSCORE_E_OBSERVE: return "inner-observe-without-registration";
  case REFOSCORE_E_OPTION_TRAILING: return "oscore-option-trailing-bytes";
  default: return "unknown-error";
  }
}

/* ------------------------------------------------------------------------------------------ */
/* minimal CBOR encoder (RFC 8949 3.): definite lengths, shortest form                          */
struct cb {
  uint8_t *p;
  size_t cap, n;
  int ovf;
};
static void
cb_byte(struct cb *c, uint8_t b) {
  if (c->n < c->cap)
    c->p[c->n++] = b;
  else
    c->ovf = 1;
}
static void
cb_head(struct cb *c, unsigned major, uint64_t v) {
  uint8_t m = (uint8_t)(major << 5);
  if (v < 24) {
    cb_byte(c, m | (uint8_t)v);
  } else if (v < 0x100) {
    cb_byte(c, m | 24);
    cb_byte(c, (uint8_t)v);
  } else if (v < 0x10000) {
    cb_byte(c, m | 25);
    cb_byte(c, (uint8_t)(v >> 8));
    cb_byte(c, (uint8_t)v);
  } else if (v < 0x100000000ULL) {
    cb_byte(c, m | 26);
    for (int s = 24; s >= 0; s -= 8)
      cb_byte(c, (uint8_t)(v >> s));
  } else {
    cb_byte(c, m | 27);
    for (int s = 56; s >= 0; s -= 8)
      cb_byte(c, (uint8_t)(v >> s));
  }
}
static void
cb_raw(struct cb *c, const uint8_t *p, size_t n) {
  for (size_t i = 0; i < n; i++)
    cb_byte(c, p[i]);
}
static void cb_uint(struct cb *c, uint64_t v) { cb_head(c, 0, v); }
static void
cb_int(struct cb *c, int64_t v) {
  if (v >= 0)
    cb_head(c, 0, (uint64_t)v);
  else
    cb_head(c, 1, (uint64_t)(-1 - v));
}
static void
cb_bstr(struct cb *c, const uint8_t *p, size_t n) {
  cb_head(c, 2, n);
  cb_raw(c, p, n);
}
static void
cb_tstr(struct cb *c, const char *s) {
  size_t n = strlen(s);
  cb_head(c, 3, n);
  cb_raw(c, (const uint8_t *)s, n);
}
static void cb_array(struct cb *c, size_t n) { cb_head(c, 4, n); }
static void cb_nil(struct cb *c) { cb_byte(c, 0xf6); }

/* ------------------------------------------------------------------------------------------ */
/* messages                                                                                    */
void
refoscore_msg_init(refoscore_msg_t *m, uint8_t code) {
  m->code = code;
  m->nopts = 0;
  m->payload_off = 0;
  m->payload_len = 0;
  m->store_used = 0;
}

static int
msg_store(refoscore_msg_t *m, const void *p, size_t len, uint16_t *off) {
  if (len > REFOSCORE_STORE || (size_t)m->store_used + len > REFOSCORE_STORE)
    return REFOSCORE_E_TOOBIG;
  *off = m->store_used;
  if (len)
    memcpy(m->store + m->store_used, p, len);
  m->store_used = (uint16_t)(m->store_used + len);
  return REFOSCORE_OK;
}

int
refoscore_msg_add_opt(refoscore_msg_t *m, unsigned num, const void *val, size_t len) {
  if (num > 0xffff || len > 0xffff || (len && !val))
    return REFOSCORE_E_INPUT;
  if (m->nopts >= REFOSCORE_MAX_OPTS)
    return REFOSCORE_E_TOOBIG;
  uint16_t off;
  int r = msg_store(m, val, len, &off);
  if (r)
    return r;
  int pos = m->nopts;
  while (pos > 0 && m->opts[pos - 1].num > num) {
    m->opts[pos] = m->opts[pos - 1];
    pos--;
  }
  m->opts[pos].num = (uint16_t)num;
  m->opts[pos].len = (uint16_t)len;
  m->opts[pos].off = off;
  m->nopts++;
  return REFOSCORE_OK;
}

int
refoscore_msg_set_payload(refoscore_msg_t *m, const void *p, size_t len) {
  if (len && !p)
    return REFOSCORE_E_INPUT;
  uint16_t off;
  int r = msg_store(m, p, len, &off);
  if (r)
    return r;
  m->payload_off = off;
  m->payload_len = (uint16_t)len;
  return REFOSCORE_OK;
}

int
refoscore_msg_find(const refoscore_msg_t *m, unsigned num) {
  for (int i = 0; i < m->nopts; i++)
    if (m->opts[i].num == num)
      return i;
  return -1;
}

int
refoscore_msg_equal(const refoscore_msg_t *a, const refoscore_msg_t *b) {
  if (a->code != b->code || a->nopts != b->nopts || a->payload_len != b->payload_len)
    return 0;
  for (int i = 0; i < a->nopts; i++) {
    if (a->opts[i].num != b->opts[i].num || a->opts[i].len != b->opts[i].len)
      return 0;
    if (memcmp(refoscore_opt_val(a, i), refoscore_opt_val(b, i), a->opts[i].len))
      return 0;
  }
  return memcmp(refoscore_payload(a), refoscore_payload(b), a->payload_len) == 0;
}

char *
refoscore_msg_str(const refoscore_msg_t *m, char *dst, size_t dstlen) {
  size_t n = 0;
  if (!dstlen)
    return dst;
  dst[0] = 0;
#define EMIT(...)                                                                                                      \
  do {                                                                                                                 \
    if (n < dstlen) {                                                                                                  \
      int k_ = snprintf(dst + n, dstlen - n, __VA_ARGS__);                                                             \
      if (k_ > 0)                                                                                                      \
        n += (size_t)k_;                                                                                               \
    }                                                                                                                  \
  } while (0)
  EMIT("code=%u.%02u opts=[", m->code >> 5, m->code & 31);
  for (int i = 0; i < m->nopts; i++) {
    EMIT("%s%u:", i ? " " : "", m->opts[i].num);
    unsigned l = m->opts[i].len;
    for (unsigned j = 0; j < l && j < 12; j++)
      EMIT("%02x", refoscore_opt_val(m, i)[j]);
    if (l > 12)
      EMIT("..(%u)", l);
  }
  EMIT("] payload(%u)=", m->payload_len);
  for (unsigned j = 0; j < m->payload_len && j < 16; j++)
    EMIT("%02x", refoscore_payload(m)[j]);
  if (m->payload_len > 16)
    EMIT("..");
#undef EMIT
  if (n >= dstlen)
    dst[dstlen - 1] = 0;
  return dst;
}

/* ------------------------------------------------------------------------------------------ */
/* RFC 7252 3.1 option format                                                                  */
static int
put_nibble_ext(unsigned v, unsigned *nib, uint8_t ext[2], size_t *extlen) {
  if (v < 13) {
    *nib = v;
    *extlen = 0;
  } else if (v < 269) {
    *nib = 13;
    ext[0] = (uint8_t)(v - 13);
    *extlen = 1;
  } else if (v <= 65535u + 269u) {
    *nib = 14;
    ext[0] = (uint8_t)((v - 269) >> 8);
    ext[1] = (uint8_t)(v - 269);
    *extlen = 2;
  } else {
    return -1;
  }
  return 0;
}

int
refoscore_coap_encode_body(const refoscore_msg_t *m, uint8_t *buf, size_t cap) {
  size_t n = 0;
  unsigned prev = 0;
  for (int i = 0; i < m->nopts; i++) {
    unsigned dn, ln;
    uint8_t de[2], le[2];
    size_t del, lel;
    if (m->opts[i].num < prev)
      return REFOSCORE_E_INPUT;
    if (put_nibble_ext(m->opts[i].num - prev, &dn, de, &del) || put_nibble_ext(m->opts[i].len, &ln, le, &lel))
      return REFOSCORE_E_INPUT;
    if (n + 1 + del + lel + m->opts[i].len > cap)
      return REFOSCORE_E_TOOBIG;
    buf[n++] = (uint8_t)(dn << 4 | ln);
    memcpy(buf + n, de, del);
    n += del;
    memcpy(buf + n, le, lel);
    n += lel;
    memcpy(buf + n, refoscore_opt_val(m, i), m->opts[i].len);
    n += m->opts[i].len;
    prev = m->opts[i].num;
  }
  if (m->payload_len) {
    if (n + 1 + m->payload_len > cap)
      return REFOSCORE_E_TOOBIG;
    buf[n++] = 0xff;
    memcpy(buf + n, refoscore_payload(m), m->payload_len);
    n += m->payload_len;
  }
  return (int)n;
}

int
refoscore_coap_decode_body(const uint8_t *buf, size_t len, refoscore_msg_t *m) {
  size_t i = 0;
  unsigned num = 0;
  while (i < len) {
    uint8_t b = buf[i];
    if (b == 0xff) {
      if (i + 1 >= len)
        return REFOSCORE_E_COAP_MALFORMED; /* marker followed by zero-length payload */
      return refoscore_msg_set_payload(m, buf + i + 1, len - i - 1) ? REFOSCORE_E_TOOBIG : REFOSCORE_OK;
    }
    i++;
    unsigned d = b >> 4, l = b & 15;
    if (d == 15 || l == 15)
      return REFOSCORE_E_COAP_MALFORMED;
    if (d == 13) {
      if (i + 1 > len)
        return REFOSCORE_E_COAP_MALFORMED;
      d = 13u + buf[i++];
    } else if (d == 14) {
      if (i + 2 > len)
        return REFOSCORE_E_COAP_MALFORMED;
      d = 269u + ((unsigned)buf[i] << 8 | buf[i + 1]);
      i += 2;
    }
    if (l == 13) {
      if (i + 1 > len)
        return REFOSCORE_E_COAP_MALFORMED;
      l = 13u + buf[i++];
    } else if (l == 14) {
      if (i + 2 > len)
        return REFOSCORE_E_COAP_MALFORMED;
      l = 269u + ((unsigned)buf[i] << 8 | buf[i + 1]);
      i += 2;
    }
    num += d;
    if (num > 65535)
      return REFOSCORE_E_COAP_MALFORMED;
    if (l > len - i)
      return REFOSCORE_E_COAP_MALFORMED;
    int r = refoscore_msg_add_opt(m, num, buf + i, l);
    if (r)
      return r;
    i += l;
  }
  return REFOSCORE_OK;
}

int
refoscore_coap_encode(const refoscore_msg_t *m, uint8_t type, uint16_t mid, const uint8_t *token, size_t tkl,
                      uint8_t *buf, size_t cap) {
  if (tkl > 8 || type > 3 || (tkl && !token))
    return REFOSCORE_E_INPUT;
  if (cap < 4 + tkl)
    return REFOSCORE_E_TOOBIG;
  buf[0] = (uint8_t)(0x40 | type << 4 | tkl);
  buf[1] = m->code;
  buf[2] = (uint8_t)(mid >> 8);
  buf[3] = (uint8_t)mid;
  if (tkl)
    memcpy(buf + 4, token, tkl);
  int r = refoscore_coap_encode_body(m, buf + 4 + tkl, cap - 4 - tkl);
  if (r < 0)
    return r;
  return (int)(4 + tkl) + r;
}

int
refoscore_coap_decode(const uint8_t *buf, size_t len, refoscore_msg_t *m, uint8_t *type, uint16_t *mid,
                      uint8_t *token, size_t *tkl) {
  if (len < 4)
    return REFOSCORE_E_COAP_MALFORMED;
  if ((buf[0] >> 6) != 1)
    return REFOSCORE_E_COAP_MALFORMED;
  size_t t = buf[0] & 15;
  if (t > 8 || 4 + t > len)
    return REFOSCORE_E_COAP_MALFORMED;
  if (buf[1] == 0 && len != 4)
    return REFOSCORE_E_COAP_MALFORMED;
  refoscore_msg_init(m, buf[1]);
  if (type)
    *type = (buf[0] >> 4) & 3;
  if (mid)
    *mid = (uint16_t)(buf[2] << 8 | buf[3]);
  if (token && t)
    memcpy(token, buf + 4, t);
  if (tkl)
    *tkl = t;
  return refoscore_coap_decode_body(buf + 4 + t, len - 4 - t, m);
}

/* ------------------------------------------------------------------------------------------ */
/* HKDF-SHA-256 (RFC 5869) through OpenSSL's EVP_KDF                                           */
int
refoscore_hkdf_sha256(const uint8_t *salt, size_t salt_len, const uint8_t *ikm, size_t ikm_len, const uint8_t *info,
                      size_t info_len, uint8_t *okm, size_t okm_len) {
  int ret = REFOSCORE_E_CRYPTO;
  EVP_KDF *kdf = EVP_KDF_fetch(NULL, "HKDF", NULL);
  if (!kdf)
    return ret;
  EVP_KDF_CTX *k = EVP_KDF_CTX_new(kdf);
  EVP_KDF_free(kdf);
  if (!k)
    return ret;
  OSSL_PARAM prm[5];
  int n = 0;
  static const uint8_t nothing[1] = {0};
  prm[n++] = OSSL_PARAM_construct_utf8_string(OSSL_KDF_PARAM_DIGEST, (char *)"SHA256", 0);
  prm[n++] = OSSL_PARAM_construct_octet_string(OSSL_KDF_PARAM_KEY, (void *)(ikm_len ? ikm : nothing), ikm_len);
  if (salt && salt_len) /* absent salt: RFC 5869 2.2 "string of HashLen zeros", OpenSSL's default */
    prm[n++] = OSSL_PARAM_construct_octet_string(OSSL_KDF_PARAM_SALT, (void *)salt, salt_len);
  prm[n++] = OSSL_PARAM_construct_octet_string(OSSL_KDF_PARAM_INFO, (void *)(info_len ? info : nothing), info_len);
  prm[n] = OSSL_PARAM_construct_end();
  if (EVP_KDF_derive(k, okm, okm_len, prm) > 0)
    ret = REFOSCORE_OK;
  EVP_KDF_CTX_free(k);
  return ret;
}

int
refoscore_hkdf_info(const uint8_t *id, size_t id_len, const uint8_t *id_context, size_t id_context_len,
                    int has_id_context, int alg, const char *type, size_t L, uint8_t *buf, size_t cap) {
  struct cb c = {buf, cap, 0, 0};
  cb_array(&c, 5);
  cb_bstr(&c, id, id_len);
  if (has_id_context)
    cb_bstr(&c, id_context, id_context_len);
  else
    cb_nil(&c);
  cb_int(&c, alg);
  cb_tstr(&c, type);
  cb_uint(&c, L);
  return c.ovf ? REFOSCORE_E_TOOBIG : (int)c.n;
}

int
refoscore_derive(const refoscore_params_t *p, refoscore_ctx_t *out) {
  if (!p || !out || !p->master_secret || !p->master_secret_len || p->sender_id_len > REFOSCORE_MAX_ID ||
      p->recipient_id_len > REFOSCORE_MAX_ID || (p->has_id_context && p->id_context_len > REFOSCORE_MAX_IDCTX))
    return REFOSCORE_E_INPUT;
  memset(out, 0, sizeof *out);
  if (p->sender_id_len)
    memcpy(out->sender_id, p->sender_id, p->sender_id_len);
  out->sender_id_len = p->sender_id_len;
  if (p->recipient_id_len)
    memcpy(out->recipient_id, p->recipient_id, p->recipient_id_len);
  out->recipient_id_len = p->recipient_id_len;
  out->has_id_context = p->has_id_context ? 1 : 0;
  if (out->has_id_context) {
    if (p->id_context_len)
      memcpy(out->id_context, p->id_context, p->id_context_len);
    out->id_context_len = p->id_context_len;
  }
  uint8_t info[32 + REFOSCORE_MAX_ID + REFOSCORE_MAX_IDCTX];
  int n, r;
  /* Sender Key: id = Sender ID, type "Key", L = key length of the AEAD */
  n = refoscore_hkdf_info(out->sender_id, out->sender_id_len, out->id_context, out->id_context_len,
                          out->has_id_context, REFOSCORE_ALG_AES_CCM_16_64_128, "Key", REFOSCORE_KEY_LEN, info,
                          sizeof info);
  if (n < 0)
    return n;
  r = refoscore_hkdf_sha256(p->master_salt, p->master_salt_len, p->master_secret, p->master_secret_len, info,
                            (size_t)n, out->sender_key, REFOSCORE_KEY_LEN);
  if (r)
    return r;
  /* Recipient Key: id = Recipient ID */
  n = refoscore_hkdf_info(out->recipient_id, out->recipient_id_len, out->id_context, out->id_context_len,
                          out->has_id_context, REFOSCORE_ALG_AES_CCM_16_64_128, "Key", REFOSCORE_KEY_LEN, info,
                          sizeof info);
  if (n < 0)
    return n;
  r = refoscore_hkdf_sha256(p->master_salt, p->master_salt_len, p->master_secret, p->master_secret_len, info,
                            (size_t)n, out->recipient_key, REFOSCORE_KEY_LEN);
  if (r)
    return r;
  /* Common IV: id = empty byte string, type "IV", L = nonce length */
  n = refoscore_hkdf_info(NULL, 0, out->id_context, out->id_context_len, out->has_id_context,
                          REFOSCORE_ALG_AES_CCM_16_64_128, "IV", REFOSCORE_NONCE_LEN, info, sizeof info);
  if (n < 0)
    return n;
  return refoscore_hkdf_sha256(p->master_salt, p->master_salt_len, p->master_secret, p->master_secret_len, info,
                               (size_t)n, out->common_iv, REFOSCORE_NONCE_LEN);
}

void
refoscore_mirror(const refoscore_ctx_t *in, refoscore_ctx_t *out) {
  refoscore_ctx_t t = *in;
  memcpy(t.sender_id, in->recipient_id, REFOSCORE_MAX_ID);
  t.sender_id_len = in->recipient_id_len;
  memcpy(t.recipient_id, in->sender_id, REFOSCORE_MAX_ID);
  t.recipient_id_len = in->sender_id_len;
  memcpy(t.sender_key, in->recipient_key, REFOSCORE_KEY_LEN);
  memcpy(t.recipient_key, in->sender_key, REFOSCORE_KEY_LEN);
  *out = t;
}

/* ------------------------------------------------------------------------------------------ */
/* Partial IV, nonce, AAD                                                                      */
int
refoscore_piv_encode(uint64_t piv, uint8_t out[5]) {
  if (piv >> 40)
    return REFOSCORE_E_INPUT;
  int n = 1;
  while (n < 5 && (piv >> (8 * n)))
    n++;
  for (int i = 0; i < n; i++)
    out[i] = (uint8_t)(piv >> (8 * (n - 1 - i)));
  return n;
}

uint64_t
refoscore_piv_decode(const uint8_t *piv, size_t len) {
  uint64_t v = 0;
  for (size_t i = 0; i < len; i++)
    v = v << 8 | piv[i];
  return v;
}

int
refoscore_nonce(const uint8_t *id_piv, size_t id_len, const uint8_t *piv, size_t piv_len,
                const uint8_t common_iv[REFOSCORE_NONCE_LEN], uint8_t nonce[REFOSCORE_NONCE_LEN]) {
  if (id_len > REFOSCORE_NONCE_LEN - 6 || piv_len > 5)
    return REFOSCORE_E_INPUT;
  uint8_t t[REFOSCORE_NONCE_LEN];
  memset(t, 0, sizeof t);
  /* 5.2: 1. left-pad PIV to 5 bytes; 2. left-pad ID_PIV to nonce_len-6 bytes; 3. S || ID || PIV; 4. XOR Common IV */
  t[0] = (uint8_t)id_len;
  if (id_len)
    memcpy(t + 1 + (REFOSCORE_NONCE_LEN - 6 - id_len), id_piv, id_len);
  if (piv_len)
    memcpy(t + REFOSCORE_NONCE_LEN - piv_len, piv, piv_len);
  for (int i = 0; i < REFOSCORE_NONCE_LEN; i++)
    nonce[i] = t[i] ^ common_iv[i];
  return REFOSCORE_OK;
}

int
refoscore_external_aad(const uint8_t *req_kid, size_t kid_len, const uint8_t *req_piv, size_t piv_len, uint8_t *buf,
                       size_t cap) {
  struct cb c = {buf, cap, 0, 0};
  cb_array(&c, 5);
  cb_uint(&c, 1); /* oscore_version */
  cb_array(&c, 1);
  cb_int(&c, REFOSCORE_ALG_AES_CCM_16_64_128); /* algorithms: [alg_aead] */
  cb_bstr(&c, req_kid, kid_len);
  cb_bstr(&c, req_piv, piv_len);
  cb_bstr(&c, NULL, 0); /* options: no Class I options defined */
  return c.ovf ? REFOSCORE_E_TOOBIG : (int)c.n;
}

int
refoscore_aad(const uint8_t *req_kid, size_t kid_len, const uint8_t *req_piv, size_t piv_len, uint8_t *buf,
              size_t cap) {
  uint8_t ext[600];
  int n = refoscore_external_aad(req_kid, kid_len, req_piv, piv_len, ext, sizeof ext);
  if (n < 0)
    return n;
  struct cb c = {buf, cap, 0, 0};
  cb_array(&c, 3);
  cb_tstr(&c, "Encrypt0");
  cb_bstr(&c, NULL, 0); /* protected: empty */
  cb_bstr(&c, ext, (size_t)n);
  return c.ovf ? REFOSCORE_E_TOOBIG : (int)c.n;
}

/* ------------------------------------------------------------------------------------------ */
/* AES-CCM-16-64-128                                                                           */
int
refoscore_aead_encrypt(const uint8_t key[16], const uint8_t nonce[13], const uint8_t *aad, size_t aad_len,
                       const uint8_t *pt, size_t pt_len, uint8_t *out) {
  int ret = REFOSCORE_E_CRYPTO, l = 0;
  uint8_t dummy_in[1] = {0}, dummy_out[16];
  EVP_CIPHER_CTX *c = EVP_CIPHER_CTX_new();
  if (!c)
    return ret;
  if (EVP_EncryptInit_ex(c, EVP_aes_128_ccm(), NULL, NULL, NULL) != 1)
    goto done;
  if (EVP_CIPHER_CTX_ctrl(c, EVP_CTRL_AEAD_SET_IVLEN, REFOSCORE_NONCE_LEN, NULL) != 1)
    goto done;
  if (EVP_CIPHER_CTX_ctrl(c, EVP_CTRL_AEAD_SET_TAG, REFOSCORE_TAG_LEN, NULL) != 1)
    goto done;
  if (EVP_EncryptInit_ex(c, NULL, NULL, key, nonce) != 1)
    goto done;
  if (EVP_EncryptUpdate(c, NULL, &l, NULL, (int)pt_len) != 1) /* CCM needs the total length first */
    goto done;
  if (aad_len && EVP_EncryptUpdate(c, NULL, &l, aad, (int)aad_len) != 1)
    goto done;
  if (EVP_EncryptUpdate(c, pt_len ? out : dummy_out, &l, pt_len ? pt : dummy_in, (int)pt_len) != 1)
    goto done;
  if (EVP_EncryptFinal_ex(c, dummy_out, &l) != 1)
    goto done;
  if (EVP_CIPHER_CTX_ctrl(c, EVP_CTRL_AEAD_GET_TAG, REFOSCORE_TAG_LEN, out + pt_len) != 1)
    goto done;
  ret = REFOSCORE_OK;
done:
  EVP_CIPHER_CTX_free(c);
  return ret;
}

int
refoscore_aead_decrypt(const uint8_t key[16], const uint8_t nonce[13], const uint8_t *aad, size_t aad_len,
                       const uint8_t *ct, size_t ct_len, uint8_t *pt) {
  if (ct_len < REFOSCORE_TAG_LEN)
    return REFOSCORE_E_NO_CIPHERTEXT;
  size_t n = ct_len - REFOSCORE_TAG_LEN;
  int ret = REFOSCORE_E_CRYPTO, l = 0;
  uint8_t tag[REFOSCORE_TAG_LEN], dummy_in[1] = {0}, dummy_out[16];
  memcpy(tag, ct + n, REFOSCORE_TAG_LEN);
  EVP_CIPHER_CTX *c = EVP_CIPHER_CTX_new();
  if (!c)
    return ret;
  if (EVP_DecryptInit_ex(c, EVP_aes_128_ccm(), NULL, NULL, NULL) != 1)
    goto done;
  if (EVP_CIPHER_CTX_ctrl(c, EVP_CTRL_AEAD_SET_IVLEN, REFOSCORE_NONCE_LEN, NULL) != 1)
    goto done;
  if (EVP_CIPHER_CTX_ctrl(c, EVP_CTRL_AEAD_SET_TAG, REFOSCORE_TAG_LEN, tag) != 1)
    goto done;
  if (EVP_DecryptInit_ex(c, NULL, NULL, key, nonce) != 1)
    goto done;
  if (EVP_DecryptUpdate(c, NULL, &l, NULL, (int)n) != 1)
    goto done;
  if (aad_len && EVP_DecryptUpdate(c, NULL, &l, aad, (int)aad_len) != 1)
    goto done;
  /* for CCM the tag is verified by this call: <= 0 means authentication failure */
  if (EVP_DecryptUpdate(c, n ? pt : dummy_out, &l, n ? ct : dummy_in, (int)n) <= 0) {
    ret = REFOSCORE_E_AEAD;
    goto done;
  }
  ret = REFOSCORE_OK;
done:
  EVP_CIPHER_CTX_free(c);
  return ret;
}

/* ------------------------------------------------------------------------------------------ */
/* OSCORE option value, 6.1:   0 0 0 h k n n n | Partial IV (n) | s (1) kid context (s) | kid   */
int
refoscore_optval_encode(const refoscore_optval_t *v, uint8_t *buf, size_t cap) {
  size_t n = 0;
  if ((v->has_piv && (v->piv_len < 1 || v->piv_len > 5)) || (v->has_kidctx && v->kidctx_len > 255) ||
      (v->has_kid && v->kid_len > 255))
    return REFOSCORE_E_INPUT;
  if (!v->has_piv && !v->has_kidctx && !v->has_kid)
    return 0; /* all flag bits zero: the value SHALL be empty */
  size_t need = 1 + (v->has_piv ? v->piv_len : 0) + (v->has_kidctx ? 1 + v->kidctx_len : 0) +
                (v->has_kid ? v->kid_len : 0);
  if (need > cap)
    return REFOSCORE_E_TOOBIG;
  buf[n++] = (uint8_t)((v->has_kidctx ? 0x10 : 0) | (v->has_kid ? 0x08 : 0) | (v->has_piv ? v->piv_len : 0));
  if (v->has_piv) {
    memcpy(buf + n, v->piv, v->piv_len);
    n += v->piv_len;
  }
  if (v->has_kidctx) {
    buf[n++] = (uint8_t)v->kidctx_len;
    memcpy(buf + n, v->kidctx, v->kidctx_len);
    n += v->kidctx_len;
  }
  if (v->has_kid) {
    memcpy(buf + n, v->kid, v->kid_len);
    n += v->kid_len;
  }
  return (int)n;
}

int
refoscore_optval_decode(const uint8_t *buf, size_t len, refoscore_optval_t *v) {
  memset(v, 0, sizeof *v);
  if (len == 0)
    return REFOSCORE_OK;
  if (len > 255)
    return REFOSCORE_E_OPTION_MALFORMED;
  uint8_t f = buf[0];
  size_t i = 1;
  if (f & 0xe0)
    return REFOSCORE_E_OPTION_MALFORMED; /* reserved bits */
  unsigned n = f & 7;
  if (n > 5)
    return REFOSCORE_E_OPTION_MALFORMED; /* 6 and 7 are reserved */
  if (n) {
    if (i + n > len)
      return REFOSCORE_E_OPTION_MALFORMED;
    v->has_piv = 1;
    v->piv_len = n;
    memcpy(v->piv, buf + i, n);
    i += n;
  }
  if (f & 0x10) {
    if (i >= len)
      return REFOSCORE_E_OPTION_MALFORMED;
    size_t s = buf[i++];
    if (i + s > len)
      return REFOSCORE_E_OPTION_MALFORMED;
    v->has_kidctx = 1;
    v->kidctx_len = s;
    memcpy(v->kidctx, buf + i, s);
    i += s;
  }
  if (f & 0x08) {
    v->has_kid = 1;
    v->kid_len = len - i;
    memcpy(v->kid, buf + i, len - i);
    i = len;
  }
  if (i != len)
    return REFOSCORE_E_OPTION_TRAILING; /* 6.1: only the kid may occupy "the remaining bytes" */
  return REFOSCORE_OK;
}

/* ------------------------------------------------------------------------------------------ */
/* 4.1 option classes                                                                          */
char
refoscore_sender_class(unsigned num) {
  switch (num) {
  case REFOSCORE_OPT_URI_HOST:
  case REFOSCORE_OPT_URI_PORT:
  case REFOSCORE_OPT_PROXY_SCHEME:
  case REFOSCORE_OPT_HOP_LIMIT: /* RFC 8768 section 5: Class U */
    return 'U';
  case REFOSCORE_OPT_OBSERVE:
    return 'B';
  case REFOSCORE_OPT_PROXY_URI:
    return 'P';
  case REFOSCORE_OPT_OSCORE:
    return 'O';
  default:
    return 'E'; /* incl. unknown options: "SHALL be processed as class E" */
  }
}

int
refoscore_outer_discarded(unsigned num) {
  switch (num) { /* Figure 5, column E */
  case 1: case 4: case 5: case 6: case 8: case 11: case 12: case 14: case 15: case 17: case 20: case 23: case 27:
  case 28: case 60: case 258:
    return 1;
  default:
    return 0;
  }
}

/* ------------------------------------------------------------------------------------------ */
/* 8. protect / unprotect                                                                      */

/* split `in` into the plaintext (code || E options || payload) and the outer U options */
static int
split_message(const refoscore_msg_t *in, int is_request, uint8_t *plaintext, size_t cap, size_t *pt_len,
              refoscore_msg_t *out, int *has_observe) {
  refoscore_msg_t inner;
  refoscore_msg_init(&inner, in->code);
  *has_observe = 0;
  for (int i = 0; i < in->nopts; i++) {
    unsigned num = in->opts[i].num;
    const uint8_t *v = refoscore_opt_val(in, i);
    size_t l = in->opts[i].len;
    int r = 0;
    switch (refoscore_sender_class(num)) {
    case 'U':
      r = refoscore_msg_add_opt(out, num, v, l);
      break;
    case 'E':
      r = refoscore_msg_add_opt(&inner, num, v, l);
      break;
    case 'B':
      *has_observe = 1;
      /* 4.1.3.5.1: request: inner and outer carry the original value.
       * 4.1.3.5.2: response: inner MUST be empty, outer MAY carry the original value */
      r = refoscore_msg_add_opt(out, num, v, l);
      if (!r)
        r = is_request ? refoscore_msg_add_opt(&inner, num, v, l) : refoscore_msg_add_opt(&inner, num, NULL, 0);
      break;
    default:
      return REFOSCORE_E_INPUT; /* Proxy-Uri must be split by the caller, OSCORE must not be there */
    }
    if (r)
      return r;
  }
  int r = refoscore_msg_set_payload(&inner, refoscore_payload(in), in->payload_len);
  if (r)
    return r;
  if (cap < 1)
    return REFOSCORE_E_TOOBIG;
  plaintext[0] = in->code;
  r = refoscore_coap_encode_body(&inner, plaintext + 1, cap - 1);
  if (r < 0)
    return r;
  *pt_len = 1 + (size_t)r;
  return REFOSCORE_OK;
}

int
refoscore_protect_request(const refoscore_ctx_t *ctx, const refoscore_msg_t *in, uint64_t piv, refoscore_msg_t *out,
                          refoscore_reqbind_t *bind) {
  uint8_t pt[REFOSCORE_STORE + 8], ct[REFOSCORE_STORE + 16], aad[96], nonce[REFOSCORE_NONCE_LEN], ov[300];
  size_t ptl = 0;
  int has_obs, r;
  if (!ctx || !in || !out)
    return REFOSCORE_E_INPUT;
  refoscore_optval_t v;
  memset(&v, 0, sizeof v);
  r = refoscore_piv_encode(piv, v.piv);
  if (r < 0)
    return r;
  v.has_piv = 1;
  v.piv_len = (size_t)r;
  v.has_kid = 1;
  v.kid_len = ctx->sender_id_len;
  memcpy(v.kid, ctx->sender_id, ctx->sender_id_len);
  if (ctx->has_id_context) {
    v.has_kidctx = 1;
    v.kidctx_len = ctx->id_context_len;
    memcpy(v.kidctx, ctx->id_context, ctx->id_context_len);
  }
  refoscore_msg_init(out, 0x02); /* 4.2: outer code POST ... */
  r = split_message(in, 1, pt, sizeof pt, &ptl, out, &has_obs);
  if (r)
    return r;
  if (has_obs)
    out->code = 0x05; /* ... FETCH with Observe */
  int aadl = refoscore_aad(ctx->sender_id, ctx->sender_id_len, v.piv, v.piv_len, aad, sizeof aad);
  if (aadl < 0)
    return aadl;
  r = refoscore_nonce(ctx->sender_id, ctx->sender_id_len, v.piv, v.piv_len, ctx->common_iv, nonce);
  if (r)
    return r;
  if (ptl + REFOSCORE_TAG_LEN > sizeof ct)
    return REFOSCORE_E_TOOBIG;
  r = refoscore_aead_encrypt(ctx->sender_key, nonce, aad, (size_t)aadl, pt, ptl, ct);
  if (r)
    return r;
  int ovl = refoscore_optval_encode(&v, ov, sizeof ov);
  if (ovl < 0)
    return ovl;
  r = refoscore_msg_add_opt(out, REFOSCORE_OPT_OSCORE, ov, (size_t)ovl);
  if (r)
    return r;
  r = refoscore_msg_set_payload(out, ct, ptl + REFOSCORE_TAG_LEN);
  if (r)
    return r;
  if (bind) {
    memset(bind, 0, sizeof *bind);
    memcpy(bind->kid, ctx->sender_id, ctx->sender_id_len);
    bind->kid_len = ctx->sender_id_len;
    memcpy(bind->piv, v.piv, v.piv_len);
    bind->piv_len = v.piv_len;
    memcpy(bind->nonce, nonce, sizeof nonce);
    bind->observe = has_obs;
  }
  return REFOSCORE_OK;
}

int
refoscore_protect_response(const refoscore_ctx_t *ctx, const refoscore_reqbind_t *req, const refoscore_msg_t *in,
                           int has_own_piv, uint64_t own_piv, refoscore_msg_t *out) {
  uint8_t pt[REFOSCORE_STORE + 8], ct[REFOSCORE_STORE + 16], aad[96], nonce[REFOSCORE_NONCE_LEN], ov[16];
  size_t ptl = 0;
  int has_obs, r;
  if (!ctx || !req || !in || !out)
    return REFOSCORE_E_INPUT;
  refoscore_optval_t v;
  memset(&v, 0, sizeof v);
  refoscore_msg_init(out, 0x44); /* 2.04 Changed */
  r = split_message(in, 0, pt, sizeof pt, &ptl, out, &has_obs);
  if (r)
    return r;
  if (has_obs)
    out->code = 0x45; /* 2.05 Content */
  /* 5.4: the AAD of a response carries the request's kid and Partial IV */
  int aadl = refoscore_aad(req->kid, req->kid_len, req->piv, req->piv_len, aad, sizeof aad);
  if (aadl < 0)
    return aadl;
  if (has_own_piv) {
    r = refoscore_piv_encode(own_piv, v.piv);
    if (r < 0)
      return r;
    v.has_piv = 1;
    v.piv_len = (size_t)r;
    r = refoscore_nonce(ctx->sender_id, ctx->sender_id_len, v.piv, v.piv_len, ctx->common_iv, nonce);
    if (r)
      return r;
  } else {
    memcpy(nonce, req->nonce, sizeof nonce);
  }
  if (ptl + REFOSCORE_TAG_LEN > sizeof ct)
    return REFOSCORE_E_TOOBIG;
  r = refoscore_aead_encrypt(ctx->sender_key, nonce, aad, (size_t)aadl, pt, ptl, ct);
  if (r)
    return r;
  int ovl = refoscore_optval_encode(&v, ov, sizeof ov);
  if (ovl < 0)
    return ovl;
  r = refoscore_msg_add_opt(out, REFOSCORE_OPT_OSCORE, ov, (size_t)ovl);
  if (r)
    return r;
  return refoscore_msg_set_payload(out, ct, ptl + REFOSCORE_TAG_LEN);
}

/* outer options that survive (8.2 step 2 / 8.4 step 2) + inner message -> merged */
static int
merge_message(const refoscore_msg_t *outer, const refoscore_msg_t *inner, refoscore_msg_t *merged) {
  refoscore_msg_init(merged, inner->code);
  for (int i = 0; i < outer->nopts; i++) {
    unsigned num = outer->opts[i].num;
    if (num == REFOSCORE_OPT_OSCORE || refoscore_outer_discarded(num))
      continue;
    int r = refoscore_msg_add_opt(merged, num, refoscore_opt_val(outer, i), outer->opts[i].len);
    if (r)
      return r;
  }
  for (int i = 0; i < inner->nopts; i++) {
    int r = refoscore_msg_add_opt(merged, inner->opts[i].num, refoscore_opt_val(inner, i), inner->opts[i].len);
    if (r)
      return r;
  }
  return refoscore_msg_set_payload(merged, refoscore_payload(inner), inner->payload_len);
}

static int
find_oscore_option(const refoscore_msg_t *outer, refoscore_optval_t *v) {
  int idx = -1;
  for (int i = 0; i < outer->nopts; i++)
    if (outer->opts[i].num == REFOSCORE_OPT_OSCORE) {
      if (idx >= 0)
        return REFOSCORE_E_DUP_OSCORE;
      idx = i;
    }
  if (idx < 0)
    return REFOSCORE_E_NOT_OSCORE;
  return refoscore_optval_decode(refoscore_opt_val(outer, idx), outer->opts[idx].len, v);
}

static int
parse_plaintext(const uint8_t *pt, size_t len, refoscore_msg_t *inner) {
  if (len < 1)
    return REFOSCORE_E_PLAINTEXT_MALFORMED;
  refoscore_msg_init(inner, pt[0]);
  int r = refoscore_coap_decode_body(pt + 1, len - 1, inner);
  if (r == REFOSCORE_E_COAP_MALFORMED)
    return REFOSCORE_E_PLAINTEXT_MALFORMED;
  return r;
}

int
refoscore_unprotect_request(const refoscore_ctx_t *ctx, const refoscore_msg_t *outer, refoscore_msg_t *merged,
                            refoscore_reqbind_t *bind, refoscore_info_t *info) {
  static _Thread_local refoscore_info_t local;
  refoscore_info_t *inf = info ? info : &local;
  uint8_t pt[REFOSCORE_STORE + 16], aad[600], nonce[REFOSCORE_NONCE_LEN];
  if (!ctx || !outer || !merged)
    return REFOSCORE_E_INPUT;
  int r = find_oscore_option(outer, &inf->optval);
  if (r)
    return r;
  const refoscore_optval_t *v = &inf->optval;
  if (!v->has_kid)
    return REFOSCORE_E_NO_KID;
  if (!v->has_piv)
    return REFOSCORE_E_NO_PIV;
  if (v->kid_len != ctx->recipient_id_len || memcmp(v->kid, ctx->recipient_id, v->kid_len))
    return REFOSCORE_E_KID_MISMATCH;
  if (v->has_kidctx && (!ctx->has_id_context || v->kidctx_len != ctx->id_context_len ||
                        memcmp(v->kidctx, ctx->id_context, v->kidctx_len)))
    return REFOSCORE_E_KIDCTX_MISMATCH;
  if (outer->payload_len < REFOSCORE_TAG_LEN)
    return REFOSCORE_E_NO_CIPHERTEXT;
  int aadl = refoscore_aad(v->kid, v->kid_len, v->piv, v->piv_len, aad, sizeof aad);
  if (aadl < 0)
    return aadl;
  r = refoscore_nonce(v->kid, v->kid_len, v->piv, v->piv_len, ctx->common_iv, nonce);
  if (r)
    return r;
  r = refoscore_aead_decrypt(ctx->recipient_key, nonce, aad, (size_t)aadl, refoscore_payload(outer),
                             outer->payload_len, pt);
  if (r)
    return r;
  r = parse_plaintext(pt, outer->payload_len - REFOSCORE_TAG_LEN, &inf->inner);
  if (r)
    return r;
  r = merge_message(outer, &inf->inner, merged);
  if (r)
    return r;
  if (bind) {
    memset(bind, 0, sizeof *bind);
    memcpy(bind->kid, v->kid, v->kid_len);
    bind->kid_len = v->kid_len;
    memcpy(bind->piv, v->piv, v->piv_len);
    bind->piv_len = v->piv_len;
    memcpy(bind->nonce, nonce, sizeof nonce);
    bind->observe = refoscore_msg_find(&inf->inner, REFOSCORE_OPT_OBSERVE) >= 0;
  }
  return REFOSCORE_OK;
}

int
refoscore_unprotect_response(const refoscore_ctx_t *ctx, const refoscore_reqbind_t *req, const refoscore_msg_t *outer,
                             refoscore_msg_t *merged, refoscore_info_t *info) {
  static _Thread_local refoscore_info_t local;
  refoscore_info_t *inf = info ? info : &local;
  uint8_t pt[REFOSCORE_STORE + 16], aad[96], nonce[REFOSCORE_NONCE_LEN];
  if (!ctx || !req || !outer || !merged)
    return REFOSCORE_E_INPUT;
  int r = find_oscore_option(outer, &inf->optval);
  if (r)
    return r;
  const refoscore_optval_t *v = &inf->optval;
  if (outer->payload_len < REFOSCORE_TAG_LEN)
    return REFOSCORE_E_NO_CIPHERTEXT;
  int aadl = refoscore_aad(req->kid, req->kid_len, req->piv, req->piv_len, aad, sizeof aad);
  if (aadl < 0)
    return aadl;
  if (v->has_piv) {
    /* nonce from the Recipient ID (= the responder's Sender ID) and the response's own Partial IV */
    r = refoscore_nonce(ctx->recipient_id, ctx->recipient_id_len, v->piv, v->piv_len, ctx->common_iv, nonce);
    if (r)
      return r;
  } else {
    memcpy(nonce, req->nonce, sizeof nonce);
  }
  r = refoscore_aead_decrypt(ctx->recipient_key, nonce, aad, (size_t)aadl, refoscore_payload(outer),
                             outer->payload_len, pt);
  if (r)
    return r;
  r = parse_plaintext(pt, outer->payload_len - REFOSCORE_TAG_LEN, &inf->inner);
  if (r)
    return r;
  int io = refoscore_msg_find(&inf->inner, REFOSCORE_OPT_OBSERVE);
  if (io >= 0 && !req->observe)
    return REFOSCORE_E_OBSERVE;
  r = merge_message(outer, &inf->inner, merged);
  if (r)
    return r;
  if (io >= 0 && v->has_piv) {
    /* 4.1.3.5.2 (MAY): Observe := three least significant bytes of the Partial IV */
    refoscore_msg_t t;
    refoscore_msg_init(&t, merged->code);
    for (int i = 0; i < merged->nopts; i++) {
      if (merged->opts[i].num == REFOSCORE_OPT_OBSERVE) {
        size_t l = v->piv_len > 3 ? 3 : v->piv_len;
        r = refoscore_msg_add_opt(&t, REFOSCORE_OPT_OBSERVE, v->piv + (v->piv_len - l), l);
      } else {
        r = refoscore_msg_add_opt(&t, merged->opts[i].num, refoscore_opt_val(merged, i), merged->opts[i].len);
      }
      if (r)
        return r;
    }
    r = refoscore_msg_set_payload(&t, refoscore_payload(merged), merged->payload_len);
    if (r)
      return r;
    *merged = t;
  }
  return REFOSCORE_OK;
}

/* ------------------------------------------------------------------------------------------ */
/* RFC 8613 Appendix C test vectors (transcribed from the RFC) and self-test                   */
static const uint8_t V_SECRET[16] = {0x01, 0x02, 0x03, 0x04, 0x05, 0x06, 0x07, 0x08,
                                     0x09, 0x0a, 0x0b, 0x0c, 0x0d, 0x0e, 0x0f, 0x10};
static const uint8_t V_SALT[8] = {0x9e, 0x7c, 0xa9, 0x22, 0x23, 0x78, 0x63, 0x40};
static const uint8_t V_IDCTX[8] = {0x37, 0xcb, 0xf3, 0x21, 0x00, 0x17, 0xa2, 0xd3};
static const uint8_t V_ID00[1] = {0x00};
static const uint8_t V_ID01[1] = {0x01};

/* C.4 */
static const uint8_t V4_UNPROT[] = {0x44, 0x01, 0x5d, 0x1f, 0x00, 0x00, 0x39, 0x74, 0x39, 0x6c, 0x6f,
                                    0x63, 0x61, 0x6c, 0x68, 0x6f, 0x73, 0x74, 0x83, 0x74, 0x76, 0x31};
static const uint8_t V4_PROT[] = {0x44, 0x02, 0x5d, 0x1f, 0x00, 0x00, 0x39, 0x74, 0x39, 0x6c, 0x6f, 0x63,
                                  0x61, 0x6c, 0x68, 0x6f, 0x73, 0x74, 0x62, 0x09, 0x14, 0xff, 0x61, 0x2f,
                                  0x10, 0x92, 0xf1, 0x77, 0x6f, 0x1c, 0x16, 0x68, 0xb3, 0x82, 0x5e};
/* C.5 */
static const uint8_t V5_UNPROT[] = {0x44, 0x01, 0x71, 0xc3, 0x00, 0x00, 0xb9, 0x32, 0x39, 0x6c, 0x6f,
                                    0x63, 0x61, 0x6c, 0x68, 0x6f, 0x73, 0x74, 0x83, 0x74, 0x76, 0x31};
static const uint8_t V5_PROT[] = {0x44, 0x02, 0x71, 0xc3, 0x00, 0x00, 0xb9, 0x32, 0x39, 0x6c, 0x6f, 0x63,
                                  0x61, 0x6c, 0x68, 0x6f, 0x73, 0x74, 0x63, 0x09, 0x14, 0x00, 0xff, 0x4e,
                                  0xd3, 0x39, 0xa5, 0xa3, 0x79, 0xb0, 0xb8, 0xbc, 0x73, 0x1f, 0xff, 0xb0};
/* C.6 */
static const uint8_t V6_UNPROT[] = {0x44, 0x01, 0x2f, 0x8e, 0xef, 0x9b, 0xbf, 0x7a, 0x39, 0x6c, 0x6f,
                                    0x63, 0x61, 0x6c, 0x68, 0x6f, 0x73, 0x74, 0x83, 0x74, 0x76, 0x31};
static const uint8_t V6_PROT[] = {0x44, 0x02, 0x2f, 0x8e, 0xef, 0x9b, 0xbf, 0x7a, 0x39, 0x6c, 0x6f, 0x63,
                                  0x61, 0x6c, 0x68, 0x6f, 0x73, 0x74, 0x6b, 0x19, 0x14, 0x08, 0x37, 0xcb,
                                  0xf3, 0x21, 0x00, 0x17, 0xa2, 0xd3, 0xff, 0x72, 0xcd, 0x72, 0x73, 0xfd,
                                  0x33, 0x1a, 0xc4, 0x5c, 0xff, 0xbe, 0x55, 0xc3};
/* C.7 */
static const uint8_t V7_UNPROT[] = {0x64, 0x45, 0x5d, 0x1f, 0x00, 0x00, 0x39, 0x74, 0xff, 0x48, 0x65,
                                    0x6c, 0x6c, 0x6f, 0x20, 0x57, 0x6f, 0x72, 0x6c, 0x64, 0x21};
static const uint8_t V7_PROT[] = {0x64, 0x44, 0x5d, 0x1f, 0x00, 0x00, 0x39, 0x74, 0x90, 0xff, 0xdb,
                                  0xaa, 0xd1, 0xe9, 0xa7, 0xe7, 0xb2, 0xa8, 0x13, 0xd3, 0xc3, 0x15,
                                  0x24, 0x37, 0x83, 0x03, 0xcd, 0xaf, 0xae, 0x11, 0x91, 0x06};
/* C.8 */
static const uint8_t V8_PROT[] = {0x64, 0x44, 0x5d, 0x1f, 0x00, 0x00, 0x39, 0x74, 0x92, 0x01, 0x00, 0xff,
                                  0x4d, 0x4c, 0x13, 0x66, 0x93, 0x84, 0xb6, 0x73, 0x54, 0xb2, 0xb6, 0x17,
                                  0x5f, 0xf4, 0xb8, 0x65, 0x8c, 0x66, 0x6a, 0x6c, 0xf8, 0x8e};

#define P_CLIENT_SALT {V_SECRET, 16, V_SALT, 8, NULL, 0, V_ID01, 1, NULL, 0, 0}
#define P_SERVER_SALT {V_SECRET, 16, V_SALT, 8, V_ID01, 1, NULL, 0, NULL, 0, 0}
#define P_CLIENT_NOSALT {V_SECRET, 16, NULL, 0, V_ID00, 1, V_ID01, 1, NULL, 0, 0}
#define P_SERVER_NOSALT {V_SECRET, 16, NULL, 0, V_ID01, 1, V_ID00, 1, NULL, 0, 0}
#define P_CLIENT_IDCTX {V_SECRET, 16, V_SALT, 8, NULL, 0, V_ID01, 1, V_IDCTX, 8, 1}
#define P_SERVER_IDCTX {V_SECRET, 16, V_SALT, 8, V_ID01, 1, NULL, 0, V_IDCTX, 8, 1}

static const refoscore_vector_t VECTORS[] = {
    {"C.4", 0, P_CLIENT_SALT, 20, 0, -1, V4_UNPROT, sizeof V4_UNPROT, V4_PROT, sizeof V4_PROT},
    {"C.5", 0, P_CLIENT_NOSALT, 20, 0, -1, V5_UNPROT, sizeof V5_UNPROT, V5_PROT, sizeof V5_PROT},
    {"C.6", 0, P_CLIENT_IDCTX, 20, 0, -1, V6_UNPROT, sizeof V6_UNPROT, V6_PROT, sizeof V6_PROT},
    {"C.7", 1, P_SERVER_SALT, 0, 0, 0, V7_UNPROT, sizeof V7_UNPROT, V7_PROT, sizeof V7_PROT},
    {"C.8", 1, P_SERVER_SALT, 0, 1, 0, V7_UNPROT, sizeof V7_UNPROT, V8_PROT, sizeof V8_PROT},
};

int
refoscore_vectors(const refoscore_vector_t **v) {
  *v = VECTORS;
  return (int)(sizeof VECTORS / sizeof VECTORS[0]);
}

static int st_checks;
static int
st_hex(uint8_t *out, const char *hex) {
  int n = 0;
  while (hex[0] && hex[1]) {
    unsigned v;
    sscanf(hex, "%2x", &v);
    out[n++] = (uint8_t)v;
    hex += 2;
  }
  return n;
}
static int
st_eq(const char *vec, const char *what, const uint8_t *got, size_t gotlen, const char *want_hex) {
  uint8_t want[256];
  size_t wl = (size_t)st_hex(want, want_hex);
  st_checks++;
  if (wl == gotlen && !memcmp(want, got, wl))
    return 1;
  fprintf(stderr, "refoscore selftest: %s %s mismatch\n  want %s\n  got  ", vec, what, want_hex);
  for (size_t i = 0; i < gotlen; i++)
    fprintf(stderr, "%02x", got[i]);
  fprintf(stderr, "\n");
  return 0;
}

struct kd_vector {
  const char *name;
  refoscore_params_t p;
  const char *info_skey, *info_rkey, *info_iv; /* NULL: not printed in the RFC for this vector */
  const char *skey, *rkey, *civ, *snonce, *rnonce;
};

static const struct kd_vector KD[] = {
    {"C.1.1", P_CLIENT_SALT, "8540f60a634b657910", "854101f60a634b657910", "8540f60a6249560d",
     "f0910ed7295e6ad4b54fc793154302ff", "ffb14e093c94c9cac9471648b4f98710", "4622d4dd6d944168eefb54987c",
     "4622d4dd6d944168eefb54987c", "4722d4dd6d944169eefb54987c"},
    {"C.1.2", P_SERVER_SALT, "854101f60a634b657910", "8540f60a634b657910", "8540f60a6249560d",
     "ffb14e093c94c9cac9471648b4f98710", "f0910ed7295e6ad4b54fc793154302ff", "4622d4dd6d944168eefb54987c",
     "4722d4dd6d944169eefb54987c", "4622d4dd6d944168eefb54987c"},
    {"C.2.1", P_CLIENT_NOSALT, "854100f60a634b657910", "854101f60a634b657910", "8540f60a6249560d",
     "321b26943253c7ffb6003b0b64d74041", "e57b5635815177cd679ab4bcec9d7dda", "be35ae297d2dace910c52e99f9",
     "bf35ae297d2dace910c52e99f9", "bf35ae297d2dace810c52e99f9"},
    {"C.2.2", P_SERVER_NOSALT, "854101f60a634b657910", "854100f60a634b657910", "8540f60a6249560d",
     "e57b5635815177cd679ab4bcec9d7dda", "321b26943253c7ffb6003b0b64d74041", "be35ae297d2dace910c52e99f9",
     "bf35ae297d2dace810c52e99f9", "bf35ae297d2dace910c52e99f9"},
    {"C.3.1", P_CLIENT_IDCTX, "85404837cbf3210017a2d30a634b657910", "8541014837cbf3210017a2d30a634b657910",
     "85404837cbf3210017a2d30a6249560d", "af2a1300a5e95788b356336eeecd2b92", "e39a0c7c77b43f03b4b39ab9a268699f",
     "2ca58fb85ff1b81c0b7181b85e", "2ca58fb85ff1b81c0b7181b85e", "2da58fb85ff1b81d0b7181b85e"},
    {"C.3.2", P_SERVER_IDCTX, "8541014837cbf3210017a2d30a634b657910", "85404837cbf3210017a2d30a634b657910",
     "85404837cbf3210017a2d30a6249560d", "e39a0c7c77b43f03b4b39ab9a268699f", "af2a1300a5e95788b356336eeecd2b92",
     "2ca58fb85ff1b81c0b7181b85e", "2da58fb85ff1b81d0b7181b85e", "2ca58fb85ff1b81c0b7181b85e"},
};

/* intermediate values printed in C.4 - C.8 */
struct msg_inter {
  const char *ext_aad, *aad, *plaintext, *nonce, *optval, *ciphertext;
};
static const struct msg_inter INTER[] = {
    {"8501810a40411440", "8368456e63727970743040488501810a40411440", "01b3747631", "4622d4dd6d944168eefb549868",
     "0914", "612f1092f1776f1c1668b3825e"},
    {"8501810a4100411440", "8368456e63727970743040498501810a4100411440", "01b3747631",
     "bf35ae297d2dace910c52e99ed", "091400", "4ed339a5a379b0b8bc731fffb0"},
    {"8501810a40411440", "8368456e63727970743040488501810a40411440", "01b3747631", "2ca58fb85ff1b81c0b7181b84a",
     "19140837cbf3210017a2d3", "72cd7273fd331ac45cffbe55c3"},
    {"8501810a40411440", "8368456e63727970743040488501810a40411440", "45ff48656c6c6f20576f726c6421",
     "4622d4dd6d944168eefb549868", "", "dbaad1e9a7e7b2a813d3c31524378303cdafae119106"},
    {"8501810a40411440", "8368456e63727970743040488501810a40411440", "45ff48656c6c6f20576f726c6421",
     "4722d4dd6d944169eefb54987c", "0100", "4d4c13669384b67354b2b6175ff4b8658c666a6cf88e"},
};

static int
st_keyderiv(const struct kd_vector *k) {
  refoscore_ctx_t c;
  uint8_t info[64], nonce[13], piv0[1] = {0};
  int ok = 1, n;
  if (refoscore_derive(&k->p, &c)) {
    fprintf(stderr, "refoscore selftest: %s derive failed\n", k->name);
    return 0;
  }
  n = refoscore_hkdf_info(c.sender_id, c.sender_id_len, c.id_context, c.id_context_len, c.has_id_context, 10, "Key",
                          16, info, sizeof info);
  ok &= n > 0 && st_eq(k->name, "info(sender key)", info, (size_t)n, k->info_skey);
  n = refoscore_hkdf_info(c.recipient_id, c.recipient_id_len, c.id_context, c.id_context_len, c.has_id_context, 10,
                          "Key", 16, info, sizeof info);
  ok &= n > 0 && st_eq(k->name, "info(recipient key)", info, (size_t)n, k->info_rkey);
  n = refoscore_hkdf_info(NULL, 0, c.id_context, c.id_context_len, c.has_id_context, 10, "IV", 13, info, sizeof info);
  ok &= n > 0 && st_eq(k->name, "info(common iv)", info, (size_t)n, k->info_iv);
  ok &= st_eq(k->name, "sender key", c.sender_key, 16, k->skey);
  ok &= st_eq(k->name, "recipient key", c.recipient_key, 16, k->rkey);
  ok &= st_eq(k->name, "common iv", c.common_iv, 13, k->civ);
  /* the RFC's "sender nonce" / "recipient nonce" are the nonces for Partial IV 0 */
  refoscore_nonce(c.sender_id, c.sender_id_len, piv0, 1, c.common_iv, nonce);
  ok &= st_eq(k->name, "sender nonce", nonce, 13, k->snonce);
  refoscore_nonce(c.recipient_id, c.recipient_id_len, piv0, 1, c.common_iv, nonce);
  ok &= st_eq(k->name, "recipient nonce", nonce, 13, k->rnonce);
  return ok;
}

static int
st_message(int vi) {
  const refoscore_vector_t *v = &VECTORS[vi];
  const struct msg_inter *it = &INTER[vi];
  refoscore_ctx_t c, peer;
  refoscore_msg_t plain, prot, out, merged;
  refoscore_reqbind_t bind, bind2;
  refoscore_info_t *info = NULL;
  static refoscore_info_t info_store;
  uint8_t type, tok[8], buf[256], tmp[256];
  uint16_t mid;
  size_t tkl;
  int ok = 1, n;
  info = &info_store;
  if (refoscore_derive(&v->params, &c))
    return 0;
  refoscore_mirror(&c, &peer);
  if (refoscore_coap_decode(v->unprotected, v->unprotected_len, &plain, &type, &mid, tok, &tkl) ||
      refoscore_coap_decode(v->protected_, v->protected_len, &prot, NULL, NULL, NULL, NULL)) {
    fprintf(stderr, "refoscore selftest: %s datagram does not decode\n", v->name);
    return 0;
  }
  /* the codec itself: re-encoding reproduces the RFC bytes */
  n = refoscore_coap_encode(&plain, type, mid, tok, tkl, buf, sizeof buf);
  st_checks++;
  if (n != (int)v->unprotected_len || memcmp(buf, v->unprotected, (size_t)n)) {
    fprintf(stderr, "refoscore selftest: %s codec round trip\n", v->name);
    ok = 0;
  }
  if (!v->is_response) {
    if (refoscore_protect_request(&c, &plain, v->piv, &out, &bind)) {
      fprintf(stderr, "refoscore selftest: %s protect failed\n", v->name);
      return 0;
    }
    n = refoscore_external_aad(c.sender_id, c.sender_id_len, bind.piv, bind.piv_len, tmp, sizeof tmp);
    ok &= n > 0 && st_eq(v->name, "external_aad", tmp, (size_t)n, it->ext_aad);
    n = refoscore_aad(c.sender_id, c.sender_id_len, bind.piv, bind.piv_len, tmp, sizeof tmp);
    ok &= n > 0 && st_eq(v->name, "AAD", tmp, (size_t)n, it->aad);
    ok &= st_eq(v->name, "nonce", bind.nonce, 13, it->nonce);
  } else {
    /* the request being answered, as the server sees it */
    const refoscore_vector_t *rq = &VECTORS[v->request_vector];
    refoscore_msg_t rq_outer, rq_merged;
    if (refoscore_coap_decode(rq->protected_, rq->protected_len, &rq_outer, NULL, NULL, NULL, NULL) ||
        refoscore_unprotect_request(&c, &rq_outer, &rq_merged, &bind, NULL)) {
      fprintf(stderr, "refoscore selftest: %s cannot unprotect the request\n", v->name);
      return 0;
    }
    if (refoscore_protect_response(&c, &bind, &plain, v->has_own_piv, v->piv, &out)) {
      fprintf(stderr, "refoscore selftest: %s protect failed\n", v->name);
      return 0;
    }
    n = refoscore_aad(bind.kid, bind.kid_len, bind.piv, bind.piv_len, tmp, sizeof tmp);
    ok &= n > 0 && st_eq(v->name, "AAD", tmp, (size_t)n, it->aad);
    if (v->has_own_piv) {
      uint8_t pv[5], nn[13];
      int pl = refoscore_piv_encode(v->piv, pv);
      refoscore_nonce(c.sender_id, c.sender_id_len, pv, (size_t)pl, c.common_iv, nn);
      ok &= st_eq(v->name, "nonce", nn, 13, it->nonce);
    } else {
      ok &= st_eq(v->name, "nonce", bind.nonce, 13, it->nonce);
    }
  }
  int oi = refoscore_msg_find(&out, REFOSCORE_OPT_OSCORE);
  ok &= oi >= 0 && st_eq(v->name, "OSCORE option value", refoscore_opt_val(&out, oi), out.opts[oi].len, it->optval);
  ok &= st_eq(v->name, "ciphertext", refoscore_payload(&out), out.payload_len, it->ciphertext);
  n = refoscore_coap_encode(&out, type, mid, tok, tkl, buf, sizeof buf);
  st_checks++;
  if (n != (int)v->protected_len || memcmp(buf, v->protected_, (size_t)n)) {
    fprintf(stderr, "refoscore selftest: %s protected datagram differs from the RFC\n", v->name);
    ok = 0;
  }
  /* reverse direction at the peer */
  int r;
  if (!v->is_response) {
    r = refoscore_unprotect_request(&peer, &prot, &merged, &bind2, info);
  } else {
    /* the client's binding: from protecting the request vector */
    const refoscore_vector_t *rq = &VECTORS[v->request_vector];
    refoscore_msg_t rq_plain, rq_out;
    refoscore_ctx_t cc;
    refoscore_derive(&rq->params, &cc);
    refoscore_coap_decode(rq->unprotected, rq->unprotected_len, &rq_plain, NULL, NULL, NULL, NULL);
    refoscore_protect_request(&cc, &rq_plain, rq->piv, &rq_out, &bind2);
    r = refoscore_unprotect_response(&peer, &bind2, &prot, &merged, info);
  }
  st_checks++;
  if (r) {
    fprintf(stderr, "refoscore selftest: %s unprotect: %s\n", v->name, refoscore_strerror(r));
    return 0;
  }
  {
    uint8_t pt[300];
    pt[0] = info->inner.code;
    n = refoscore_coap_encode_body(&info->inner, pt + 1, sizeof pt - 1);
    ok &= n >= 0 && st_eq(v->name, "plaintext", pt, (size_t)n + 1, it->plaintext);
  }
  st_checks++;
  if (!refoscore_msg_equal(&merged, &plain)) {
    char a[300], b[300];
    fprintf(stderr, "refoscore selftest: %s unprotected message differs\n  want %s\n  got  %s\n", v->name,
            refoscore_msg_str(&plain, a, sizeof a), refoscore_msg_str(&merged, b, sizeof b));
    ok = 0;
  }
  /* a flipped tag bit must be refused */
  prot.store[prot.payload_off + prot.payload_len - 1] ^= 1;
  r = v->is_response ? refoscore_unprotect_response(&peer, &bind2, &prot, &merged, NULL)
                     : refoscore_unprotect_request(&peer, &prot, &merged, NULL, NULL);
  st_checks++;
  if (r != REFOSCORE_E_AEAD) {
    fprintf(stderr, "refoscore selftest: %s forged tag not refused (%s)\n", v->name, refoscore_strerror(r));
    ok = 0;
  }
  return ok;
}

int
refoscore_selftest(int *checks) {
  int done = 0;
  st_checks = 0;
  for (size_t i = 0; i < sizeof KD / sizeof KD[0]; i++, done++)
    if (!st_keyderiv(&KD[i]))
      return -(done + 1);
  for (int i = 0; i < (int)(sizeof VECTORS / sizeof VECTORS[0]); i++, done++)
    if (!st_message(i))
      return -(done + 1);
  if (checks)
    *checks = st_checks;
  return done;
}
