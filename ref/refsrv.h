/* refsrv -- executable decision table for the reply of a CoAP server to ONE request datagram, given the
 * server's resource table.  Written from the text of property C10 and from
 *   RFC 7252  4.2/4.3 (message types, Reset), 5.4.1 (critical options), 5.4.5 (repetition),
 *             5.7.2/5.10.2 (proxy options), 5.8 (methods), 5.10.8 (conditional requests), 8.1/8.2 (multicast)
 *   RFC 7967  (No-Response bitmap: 2 = 2.xx, 8 = 4.xx, 16 = 5.xx; an option that is present and does not name
 *              the class of the response makes the server answer even where it would stay silent by default)
 *   RFC 8768  (Hop-Limit), RFC 8132 2.3.1 (FETCH needs Content-Format -> 4.15), RFC 8974 (TKL 9..12)
 * and from the public description of the per-resource multicast flags (coap_resource(3)).
 * No libcoap includes, no allocation, arrays and linear scans only.
 *
 * The table is tiered.  A tier whose rule is a MUST of the RFC decides alone; inside the "resource" tier
 * (4.04/2.02, 4.12, 4.05, 4.15, multicast-unsupported) the property statement gives a list but no order, so
 * every rule whose condition holds is an acceptable outcome and outcome[0] is the one first in the order of
 * DESIGN.md (4.04, 4.12, 4.05, 4.15).  Where the statement and the RFCs are silent the outcome says
 * `unspecified` and only the invariants (at most one reply, token echo, ACK/RST carry the request mid, never
 * ACK a NON) are to be compared.
 */
#ifndef REFSRV_H
#define REFSRV_H
#include <stddef.h>
#include <stdint.h>

#define RS_MAXOPT 20
#define RS_MAXSEG 4
#define RS_MAXRES 6
#define RS_MAXOUT 6

enum { RS_T_CON = 0, RS_T_NON = 1, RS_T_ACK = 2, RS_T_RST = 3 };

/* option numbers used by the table */
enum {
  RS_O_IF_MATCH = 1,
  RS_O_URI_HOST = 3,
  RS_O_ETAG = 4,
  RS_O_IF_NONE_MATCH = 5,
  RS_O_OBSERVE = 6,
  RS_O_URI_PORT = 7,
  RS_O_OSCORE = 9,
  RS_O_LOCATION_PATH = 8,
  RS_O_URI_PATH = 11,
  RS_O_CONTENT_FORMAT = 12,
  RS_O_MAX_AGE = 14,
  RS_O_URI_QUERY = 15,
  RS_O_HOP_LIMIT = 16,
  RS_O_ACCEPT = 17,
  RS_O_LOCATION_QUERY = 20,
  RS_O_BLOCK2 = 23,
  RS_O_BLOCK1 = 27,
  RS_O_SIZE2 = 28,
  RS_O_PROXY_URI = 35,
  RS_O_PROXY_SCHEME = 39,
  RS_O_SIZE1 = 60,
  RS_O_NO_RESPONSE = 258
};

#define RS_CODE(cls, dd) (((cls) << 5) | (dd))
#define RS_CLASS(code) (((code) >> 5) & 7)

struct rs_opt {
  uint32_t num;
  const uint8_t *val;
  size_t len;
};

struct rs_req {
  int type; /* RS_T_* */
  int code; /* raw code byte */
  int tkl;  /* token length on the wire (0..12) */
  int nopt;
  struct rs_opt opt[RS_MAXOPT]; /* wire order (ascending numbers) */
  size_t payload_len;
  int mcast; /* the datagram was addressed to an IP multicast group */
};

/* what a registered handler does */
enum {
  RS_B_CONTENT,       /* sets 2.05 and a payload */
  RS_B_CONTENT_EMPTY, /* sets 2.05, no payload */
  RS_B_NOCODE,        /* leaves the response code 0.00 */
  RS_B_404,           /* sets 4.04 */
  RS_B_500,           /* sets 5.00 */
  RS_B_INVALID        /* sets the invalid code 1.00 */
};

/* per-resource multicast flags (meaningful only when the table has mcast_per_resource) */
#define RS_MC_SUPPORT 1   /* resource accepts multicast requests */
#define RS_MC_NODELAY 2   /* (no influence on the decision) */
#define RS_MC_SUPP_205 4  /* suppress 2.05 without payload */
#define RS_MC_SUPP_2XX 8  /* suppress every 2.xx */
#define RS_MC_SEND_4XX 16 /* do not suppress 4.xx */
#define RS_MC_SEND_5XX 32 /* do not suppress 5.xx */

struct rs_res {
  int nseg;
  const char *seg[RS_MAXSEG]; /* path segments (C strings, compared bytewise with the Uri-Path values) */
  unsigned methods;           /* bit (m-1) set: a handler is registered for method code 0.0m, m = 1..7 */
  int observable;
  unsigned mc;
  int behaviour; /* RS_B_* */
};

struct rs_table {
  int nres;
  struct rs_res res[RS_MAXRES];
  int has_unknown;       /* an unknown-resource handler exists (its nseg/seg are unused) */
  struct rs_res unknown;
  int unknown_takes_wkc; /* the unknown-resource handler also wants /.well-known/core */
  int has_proxy;         /* a proxy resource exists */
  struct rs_res proxy;
  int nproxy_names;      /* host names under which the proxy itself is known */
  const char *proxy_names[4];
  int mcast_per_resource;
  int builtin_wkc;       /* the server answers GET /.well-known/core itself if nothing is registered there */
};

/* who must run */
#define RS_H_NONE (-1)
#define RS_H_UNKNOWN 100
#define RS_H_PROXY 101
#define RS_H_WKC 102 /* the server's own /.well-known/core (no application handler is invoked) */

enum rs_rule {
  RS_R_INVALID_CLASS,     /* code class 1, 6, 7 on UDP */
  RS_R_EMPTY_PING,        /* Empty CON */
  RS_R_EMPTY_OTHER,       /* Empty NON */
  RS_R_NOT_REQUEST_TYPE,  /* ACK / RST typed datagram */
  RS_R_EXT_TOKEN,         /* token longer than 8 bytes, server without RFC 8974 support */
  RS_R_MCAST_CON,         /* Confirmable request to a multicast group (RFC 7252 8.1 forbids sending it) */
  RS_R_BAD_OPTION,        /* unknown critical option or illegal repetition */
  RS_R_OSCORE_PROXY,      /* OSCORE option on a request a proxy resource could forward: RFC 8613 processing (C14) */
  RS_R_PROXY_UNSUPPORTED, /* Proxy-Uri / Proxy-Scheme and no proxy resource */
  RS_R_PROXY_SCHEME_NO_HOST,
  RS_R_HOP_LIMIT,
  RS_R_NOT_FOUND,
  RS_R_PRECONDITION,
  RS_R_NO_METHOD,
  RS_R_FETCH_NO_CF,
  RS_R_MCAST_UNSUPPORTED, /* per-resource multicast control: resource has no multicast support */
  RS_R_HANDLER,
  RS_R__COUNT
};

/* final reply kinds */
enum { RS_K_NONE, RS_K_RST, RS_K_EMPTY_ACK, RS_K_RESPONSE };

/* why a response is withheld */
enum { RS_S_NO, RS_S_NORESPONSE, RS_S_MCAST, RS_S_CODE0 };

struct rs_outcome {
  int rule;        /* enum rs_rule */
  int handler;     /* RS_H_NONE or who runs exactly once */
  int code;        /* response code produced before suppression (0 = none) */
  int kind;        /* RS_K_*: what is finally on the wire */
  int suppress;    /* RS_S_* (why kind is NONE / EMPTY_ACK although code != 0) */
  int unspecified; /* 1: statement/RFC silent about the reply -- compare only the invariants */
  int handler_free;/* 1: handler may or may not have run (only with unspecified) */
  int alt_kinds;   /* bit (1<<RS_K_*) of further acceptable reply kinds for this outcome (e.g. RST or silence) */
  int separate_ok; /* 1: an Empty ACK followed by a separate CON response with `code` is as good as piggybacking */
  int necho;       /* 4.02: numbers of the unknown critical options the reply must repeat */
  uint32_t echo[4];
  int payload_cmp; /* 1: the reply payload must be the one the handler set */
};

struct rs_decision {
  int n;                              /* >= 1 */
  struct rs_outcome out[RS_MAXOUT];   /* out[0] is the expected one, the others are equally acceptable */
  int nseg;                           /* the path the request names (after Proxy-Uri precedence), for the handler log */
  struct {
    const uint8_t *s;
    size_t len;
  } seg[RS_MAXSEG + 2];
  int proxy_forward;                  /* request is to be forwarded by the proxy resource */
  int proxy_to_self;                  /* proxy request naming the proxy itself */
  int has_noresponse;
  unsigned noresponse;
};

const char *rs_rule_name(int rule);
void rs_code_str(int code, char out[8]);

/* The decision for one request. */
void rs_decide(const struct rs_table *t, const struct rs_req *q, struct rs_decision *d);

/* helpers shared with the harness */
/* what is finally on the wire (RS_K_*) when a response with `code` belonging to resource `res` (NULL: none) is
 * produced for request q: the last stage of the table (No-Response, multicast) on its own */
int rs_final_kind(const struct rs_table *t, const struct rs_req *q, const struct rs_res *res, int payload_empty, int code);
int rs_is_repeatable(uint32_t num);
int rs_is_recognised_critical(uint32_t num);
const struct rs_opt *rs_find(const struct rs_req *q, uint32_t num);
uint32_t rs_uint(const struct rs_opt *o);

/* returns 0 when all self-checks hold, else the number of failed checks (messages to stderr) */
int rs_selftest(void);

#endif
