/* reflink -- reference for RFC 6690 link-format serialisation, parsing and section 4.1 filtering.
 * Written from the RFC text; deliberately the dumbest correct thing.  See reflink.h. */
#include "reflink.h"
#include <stdio.h>
#include <string.h>

/* ------------------------------------------------------------------------------------------ */
/* serialisation                                                                               */

struct out {
  char *p;
  size_t cap, n;
};
static void
put(struct out *o, const char *s, size_t len) {
  for (size_t i = 0; i < len; i++) {
    if (o->n < o->cap)
      o->p[o->n] = s[i];
    o->n++;
  }
}
static void
put_link(struct out *o, const struct rl_res *r) {
  put(o, "</", 2);
  put(o, r->path, strlen(r->path));
  put(o, ">", 1);
  for (int i = 0; i < r->nattr; i++) {
    put(o, ";", 1);
    put(o, r->attr[i].name, strlen(r->attr[i].name));
    if (r->attr[i].value) {
      put(o, "=", 1);
      put(o, r->attr[i].value, strlen(r->attr[i].value));
    }
  }
  if (r->observable)
    put(o, ";obs", 4);
  if (r->oscore_only)
    put(o, ";osc", 4);
}
size_t
rl_serialise_link(const struct rl_res *r, char *out, size_t cap) {
  struct out o = {out, cap, 0};
  put_link(&o, r);
  return o.n;
}
size_t
rl_serialise(const struct rl_res *const *tab, int n, char *out, size_t cap) {
  struct out o = {out, cap, 0};
  for (int i = 0; i < n; i++) {
    if (i)
      put(&o, ",", 1);
    put_link(&o, tab[i]);
  }
  return o.n;
}

/* ------------------------------------------------------------------------------------------ */
/* character classes of the ABNF                                                               */

static int
is_alpha(int c) {
  return (c >= 'a' && c <= 'z') || (c >= 'A' && c <= 'Z');
}
static int
is_digit(int c) {
  return c >= '0' && c <= '9';
}
/* RFC 5987 attr-char, used by parmname */
static int
is_attr_char(int c) {
  return is_alpha(c) || is_digit(c) || (c && strchr("!#$&+-.^_`|~", c) != NULL);
}
/* RFC 6690 ptokenchar */
static int
is_ptokenchar(int c) {
  return is_alpha(c) || is_digit(c) || (c && strchr("!#$%&'()*+-./:<=>?@[]^_`{|}~", c) != NULL);
}
/* characters we accept inside <...>: visible ASCII except the delimiters */
static int
is_target_char(int c) {
  return c > 0x20 && c < 0x7f && c != '<' && c != '>' && c != '"';
}

/* ------------------------------------------------------------------------------------------ */
/* interpretation of a registered value (ptoken or quoted-string)                              */

/* returns 0 ok, -1 malformed */
static int
interpret_value(const char *raw, struct rl_pattr *a) {
  size_t n = strlen(raw);
  a->has_value = 1;
  a->vlen = 0;
  a->quoted = 0;
  if (n >= 1 && raw[0] == '"') {
    if (n < 2 || raw[n - 1] != '"')
      return -1;
    a->quoted = 1;
    for (size_t i = 1; i + 1 < n; i++) {
      char c = raw[i];
      if (c == '\\') { /* quoted-pair */
        if (i + 2 >= n)
          return -1;
        c = raw[++i];
      } else if (c == '"')
        return -1;
      if (a->vlen + 1 >= sizeof a->value)
        return -1;
      a->value[a->vlen++] = c;
    }
  } else {
    if (n == 0)
      return -1;
    for (size_t i = 0; i < n; i++) {
      if (!is_ptokenchar((unsigned char)raw[i]) || a->vlen + 1 >= sizeof a->value)
        return -1;
      a->value[a->vlen++] = raw[i];
    }
  }
  a->value[a->vlen] = 0;
  return 0;
}

static void
add_flag_attr(struct rl_link *l, const char *name) {
  struct rl_pattr *a = &l->attr[l->nattr++];
  memset(a, 0, sizeof *a);
  snprintf(a->name, sizeof a->name, "%s", name);
}

int
rl_model_link(const struct rl_res *r, struct rl_link *out) {
  memset(out, 0, sizeof *out);
  int k = snprintf(out->target, sizeof out->target, "/%s", r->path);
  if (k < 0 || (size_t)k >= sizeof out->target)
    return -1;
  out->tlen = (size_t)k;
  for (int i = 0; i < r->nattr; i++) {
    struct rl_pattr *a = &out->attr[out->nattr++];
    memset(a, 0, sizeof *a);
    if (strlen(r->attr[i].name) >= sizeof a->name)
      return -1;
    strcpy(a->name, r->attr[i].name);
    if (r->attr[i].value) {
      if (interpret_value(r->attr[i].value, a) != 0)
        return -1;
    }
  }
  if (r->observable)
    add_flag_attr(out, "obs");
  if (r->oscore_only)
    add_flag_attr(out, "osc");
  return 0;
}

/* ------------------------------------------------------------------------------------------ */
/* parser                                                                                      */

static int
perr(char *err, size_t errlen, size_t pos, const char *what) {
  if (err && errlen)
    snprintf(err, errlen, "%s at byte %zu", what, pos);
  return -1;
}

/* relation-types inside a quoted-string: relation-type *( 1*SP relation-type ) */
static int
reltypes_ok(const struct rl_pattr *a) {
  if (a->vlen == 0)
    return 0;
  if (a->value[0] == ' ' || a->value[a->vlen - 1] == ' ')
    return 0;
  return 1;
}

static int
name_is(const char *name, const char *s) {
  return strcmp(name, s) == 0;
}

int
rl_parse(const uint8_t *s, size_t n, struct rl_doc *out, char *err, size_t errlen) {
  size_t i = 0;
  out->nlinks = 0;
  if (n == 0)
    return 0; /* link-value-list = [ link-value *[ "," link-value ] ] */
  for (;;) {
    if (out->nlinks >= RL_MAXLINKS)
      return perr(err, errlen, i, "too many links");
    struct rl_link *l = &out->link[out->nlinks];
    memset(l, 0, sizeof *l);
    l->start = i;
    if (i >= n || s[i] != '<')
      return perr(err, errlen, i, "expected '<'");
    i++;
    while (i < n && is_target_char(s[i])) {
      if (l->tlen + 1 >= sizeof l->target)
        return perr(err, errlen, i, "target too long");
      l->target[l->tlen++] = (char)s[i++];
    }
    l->target[l->tlen] = 0;
    if (i >= n || s[i] != '>')
      return perr(err, errlen, i, "expected '>'");
    i++;
    while (i < n && s[i] == ';') {
      i++;
      if (l->nattr >= RL_MAXATTR + 2)
        return perr(err, errlen, i, "too many link-params");
      struct rl_pattr *a = &l->attr[l->nattr];
      memset(a, 0, sizeof *a);
      size_t k = 0;
      while (i < n && is_attr_char(s[i])) {
        if (k + 2 >= sizeof a->name)
          return perr(err, errlen, i, "parmname too long");
        a->name[k++] = (char)s[i++];
      }
      if (k == 0)
        return perr(err, errlen, i, "empty parmname");
      if (i < n && s[i] == '*') /* ext-name-star */
        a->name[k++] = (char)s[i++];
      a->name[k] = 0;
      if (i < n && s[i] == '=') {
        i++;
        a->has_value = 1;
        if (i < n && s[i] == '"') { /* quoted-string */
          a->quoted = 1;
          i++;
          for (;;) {
            if (i >= n)
              return perr(err, errlen, i, "unterminated quoted-string");
            uint8_t c = s[i++];
            if (c == '"')
              break;
            if (c == '\\') {
              if (i >= n)
                return perr(err, errlen, i, "dangling quoted-pair");
              c = s[i++];
            }
            if (c < 0x20 || c == 0x7f)
              return perr(err, errlen, i - 1, "control character in quoted-string");
            if (a->vlen + 1 >= sizeof a->value)
              return perr(err, errlen, i, "value too long");
            a->value[a->vlen++] = (char)c;
          }
        } else { /* ptoken */
          while (i < n && is_ptokenchar(s[i])) {
            if (a->vlen + 1 >= sizeof a->value)
              return perr(err, errlen, i, "value too long");
            a->value[a->vlen++] = (char)s[i++];
          }
          if (a->vlen == 0)
            return perr(err, errlen, i, "empty ptoken");
        }
        a->value[a->vlen] = 0;
        /* the few typed link-params of the ABNF */
        if (name_is(a->name, "rt") || name_is(a->name, "if") || name_is(a->name, "rel") || name_is(a->name, "rev")) {
          if (!reltypes_ok(a))
            return perr(err, errlen, i, "bad relation-types");
        } else if (name_is(a->name, "title") || name_is(a->name, "anchor")) {
          if (!a->quoted)
            return perr(err, errlen, i, "value must be a quoted-string");
        } else if (name_is(a->name, "sz")) {
          if (a->quoted || a->vlen == 0 || (a->value[0] == '0' && a->vlen > 1))
            return perr(err, errlen, i, "bad cardinal");
          for (size_t j = 0; j < a->vlen; j++)
            if (!is_digit((unsigned char)a->value[j]))
              return perr(err, errlen, i, "bad cardinal");
        }
      }
      l->nattr++;
    }
    l->end = i;
    out->nlinks++;
    if (i == n)
      return 0;
    if (s[i] != ',')
      return perr(err, errlen, i, "expected ',' or ';' or end");
    i++;
  }
}

/* ------------------------------------------------------------------------------------------ */
/* equality                                                                                    */

static int
pattr_equal(const struct rl_pattr *a, const struct rl_pattr *b) {
  return strcmp(a->name, b->name) == 0 && a->has_value == b->has_value && a->vlen == b->vlen &&
         memcmp(a->value, b->value, a->vlen) == 0;
}

/* index of an attribute of `in` equal to a that is not yet used, or -1 */
static int
find_unused(const struct rl_link *in, const struct rl_pattr *a, const char *used) {
  for (int j = 0; j < in->nattr; j++)
    if (!used[j] && pattr_equal(a, &in->attr[j]))
      return j;
  return -1;
}

int
rl_link_attr_diff(const struct rl_link *want, const struct rl_link *got, char *name, size_t namelen) {
  char used[RL_MAXATTR + 2];
  memset(used, 0, sizeof used);
  for (int i = 0; i < want->nattr; i++) {
    int j = find_unused(got, &want->attr[i], used);
    if (j < 0) {
      snprintf(name, namelen, "%s", want->attr[i].name);
      return 1;
    }
    used[j] = 1;
  }
  for (int j = 0; j < got->nattr; j++)
    if (!used[j]) {
      snprintf(name, namelen, "%s", got->attr[j].name);
      return 1;
    }
  return 0;
}

int
rl_link_equal(const struct rl_link *a, const struct rl_link *b) {
  char nm[RL_MAXNAME];
  if (a->tlen != b->tlen || memcmp(a->target, b->target, a->tlen) != 0)
    return 0;
  if (a->nattr != b->nattr)
    return 0;
  return !rl_link_attr_diff(a, b, nm, sizeof nm);
}

/* ------------------------------------------------------------------------------------------ */
/* section 4.1 filter                                                                          */

void
rl_query_split(const uint8_t *q, size_t qlen, struct rl_query *out) {
  memset(out, 0, sizeof *out);
  size_t eq = 0;
  while (eq < qlen && q[eq] != '=')
    eq++;
  if (eq == qlen || eq == 0 || eq >= sizeof out->name)
    return; /* no '=', empty name */
  memcpy(out->name, q, eq);
  out->name[eq] = 0;
  const uint8_t *v = q + eq + 1;
  size_t vlen = qlen - eq - 1;
  if (vlen && v[vlen - 1] == '*') {
    out->prefix = 1;
    vlen--;
  }
  if (vlen == 0 || vlen > sizeof out->val)
    return; /* empty Complete Value String / empty Prefix Value String: not supported by the RFC */
  memcpy(out->val, v, vlen);
  out->vlen = vlen;
  out->has_space = memchr(v, ' ', vlen) != NULL;
  out->is_href = strcmp(out->name, "href") == 0;
  out->is_reltypes = strcmp(out->name, "rt") == 0 || strcmp(out->name, "if") == 0 || strcmp(out->name, "rel") == 0;
  out->wellformed = 1;
}

/* Complete Value String: bytewise identical.  Prefix Value String: bytewise prefix. */
static int
value_match(const char *text, size_t tlen, const struct rl_query *q) {
  if (q->prefix)
    return tlen >= q->vlen && memcmp(text, q->val, q->vlen) == 0;
  return tlen == q->vlen && memcmp(text, q->val, q->vlen) == 0;
}

int
rl_filter(const uint8_t *q, size_t qlen, const struct rl_res *r) {
  if (!q)
    return RL_MATCH;
  struct rl_query Q;
  rl_query_split(q, qlen, &Q);
  if (!Q.wellformed)
    return RL_UNSPEC;
  struct rl_link m;
  if (rl_model_link(r, &m) != 0)
    return RL_UNSPEC;
  if (Q.is_href)
    return value_match(m.target, m.tlen, &Q) ? RL_MATCH : RL_NOMATCH;
  int res = RL_NOMATCH; /* "match a target attribute only if it exists" */
  for (int i = 0; i < m.nattr; i++) {
    const struct rl_pattr *a = &m.attr[i];
    if (strcmp(a->name, Q.name) != 0)
      continue;
    int one;
    if (!a->has_value) {
      one = RL_UNSPEC;
    } else if (Q.is_reltypes) {
      int whole = value_match(a->value, a->vlen, &Q);
      int tok = 0;
      size_t p = 0;
      while (p <= a->vlen) {
        size_t e = p;
        while (e < a->vlen && a->value[e] != ' ')
          e++;
        if (e > p && value_match(a->value + p, e - p, &Q))
          tok = 1;
        p = e + 1;
      }
      if (Q.has_space && whole != tok)
        one = RL_UNSPEC; /* a search value with a space is no single relation-type */
      else
        one = tok ? RL_MATCH : RL_NOMATCH;
    } else {
      one = value_match(a->value, a->vlen, &Q) ? RL_MATCH : RL_NOMATCH;
    }
    if (one == RL_MATCH)
      return RL_MATCH;
    if (one == RL_UNSPEC)
      res = RL_UNSPEC;
  }
  return res;
}

/* ------------------------------------------------------------------------------------------ */
/* self test                                                                                   */

#define ST(cond, what)                                                   \
  do {                                                                   \
    if (!(cond)) {                                                       \
      snprintf(err, errlen, "reflink self-test: %s (line %d)", what, __LINE__); \
      return -1;                                                         \
    }                                                                    \
  } while (0)

static int
flt(const char *q, const struct rl_res *r) {
  return rl_filter((const uint8_t *)q, strlen(q), r);
}

int
rl_selftest(char *err, size_t errlen) {
  static struct rl_doc d;
  char e[120];
  /* RFC 6690 section 5, first example */
  const char *ex = "</sensors>;ct=40;title=\"Sensor Index\","
                   "</sensors/temp>;rt=\"temperature-c\";if=\"sensor\","
                   "</sensors/light>;rt=\"light-lux\";if=\"sensor\","
                   "<http://www.example.com/sensors/t123>;anchor=\"/sensors/temp\";rel=\"describedby\","
                   "</t>;anchor=\"/sensors/temp\";rel=\"alternate\"";
  ST(rl_parse((const uint8_t *)ex, strlen(ex), &d, e, sizeof e) == 0, "RFC example parses");
  ST(d.nlinks == 5, "five links");
  ST(strcmp(d.link[0].target, "/sensors") == 0 && d.link[0].nattr == 2, "link 0");
  ST(strcmp(d.link[0].attr[0].name, "ct") == 0 && strcmp(d.link[0].attr[0].value, "40") == 0 &&
         !d.link[0].attr[0].quoted,
     "ct=40");
  ST(strcmp(d.link[0].attr[1].value, "Sensor Index") == 0 && d.link[0].attr[1].quoted, "title");
  ST(d.link[1].start == 38 && ex[d.link[1].start] == '<' && ex[d.link[1].end] == ',', "span");
  ST(strcmp(d.link[3].target, "http://www.example.com/sensors/t123") == 0, "absolute target");
  /* empty document, name-only params, empty quoted value, quoted-pair */
  ST(rl_parse((const uint8_t *)"", 0, &d, e, sizeof e) == 0 && d.nlinks == 0, "empty document");
  const char *ex2 = "</a>;obs;title=\"\";x=\"a\\\"b\",</b>";
  ST(rl_parse((const uint8_t *)ex2, strlen(ex2), &d, e, sizeof e) == 0 && d.nlinks == 2, "ex2 parses");
  ST(d.link[0].nattr == 3 && !d.link[0].attr[0].has_value && d.link[0].attr[1].has_value &&
         d.link[0].attr[1].vlen == 0 && strcmp(d.link[0].attr[2].value, "a\"b") == 0,
     "ex2 attrs");
  /* malformed documents */
  static const char *bad[] = {"<", "</a", "</a>;", "</a>,", ",</a>", "</a>,,</b>", "</a>;rt=x y", "</a>;rt=", "</a>;rt=\"x",
                              "</a>;rt=\" x\"", "</a>;rt=\"\"", "</a>;=x", "</a> ", "</a>;title=x", "a", "</a></b>",
                              "</a>;sz=01", "</a>;rt=\"x\"y"};
  for (size_t i = 0; i < sizeof bad / sizeof bad[0]; i++)
    ST(rl_parse((const uint8_t *)bad[i], strlen(bad[i]), &d, e, sizeof e) != 0, bad[i]);

  /* serialise -> parse -> model round trip, attribute order irrelevant */
  struct rl_res r1 = {"sensors/temp", 2, {{"rt", "\"temperature-c x\""}, {"if", "sensor"}}, 1, 0};
  struct rl_res r2 = {"a", 3, {{"ct", "40"}, {"title", "\"\""}, {"flag", NULL}}, 0, 1};
  struct rl_res r3 = {"", 0, {{0}}, 0, 0};
  const struct rl_res *tab[3] = {&r1, &r2, &r3};
  char buf[256];
  size_t n = rl_serialise(tab, 3, buf, sizeof buf);
  const char *want = "</sensors/temp>;rt=\"temperature-c x\";if=sensor;obs,</a>;ct=40;title=\"\";flag;osc,</>";
  ST(n == strlen(want) && memcmp(buf, want, n) == 0, "serialisation");
  ST(rl_serialise(tab, 3, buf, 5) == n, "serialisation length independent of cap");
  ST(rl_parse((const uint8_t *)buf, n, &d, e, sizeof e) == 0 && d.nlinks == 3, "round trip parses");
  for (int i = 0; i < 3; i++) {
    struct rl_link m;
    ST(rl_model_link(tab[i], &m) == 0, "model");
    ST(rl_link_equal(&m, &d.link[i]), "round trip equal");
  }
  {
    struct rl_link m, g;
    char nm[RL_MAXNAME];
    rl_model_link(&r1, &m);
    const char *perm = "</sensors/temp>;obs;if=\"sensor\";rt=\"temperature-c x\"";
    ST(rl_parse((const uint8_t *)perm, strlen(perm), &d, e, sizeof e) == 0, "perm parses");
    ST(rl_link_equal(&m, &d.link[0]), "order and quoting of a ptoken-able value do not matter");
    const char *noobs = "</sensors/temp>;if=sensor;rt=\"temperature-c x\"";
    rl_parse((const uint8_t *)noobs, strlen(noobs), &d, e, sizeof e);
    g = d.link[0];
    ST(!rl_link_equal(&m, &g) && rl_link_attr_diff(&m, &g, nm, sizeof nm) && strcmp(nm, "obs") == 0, "missing obs seen");
    const char *other = "</sensors/temp>;if=sensor;rt=\"temperature-c\";obs";
    rl_parse((const uint8_t *)other, strlen(other), &d, e, sizeof e);
    ST(!rl_link_equal(&m, &d.link[0]), "different value seen");
  }

  /* section 4.1 filter (examples of RFC 6690 section 5 and the rules of 4.1) */
  ST(rl_filter(NULL, 0, &r1) == RL_MATCH, "no filter");
  ST(flt("rt=temperature-c", &r1) == RL_MATCH, "rt token 1");
  ST(flt("rt=x", &r1) == RL_MATCH, "rt token 2");
  ST(flt("rt=temperature*", &r1) == RL_MATCH, "rt token prefix");
  ST(flt("rt=temperature", &r1) == RL_NOMATCH, "prefix needs '*'");
  ST(flt("rt=emperature-c", &r1) == RL_NOMATCH, "no substring match");
  ST(flt("rt=temperature-c x", &r1) == RL_UNSPEC, "search value with space equal to whole value");
  ST(flt("rt=temperature-c y", &r1) == RL_NOMATCH, "search value with space, no match either way");
  ST(flt("if=sensor", &r1) == RL_MATCH, "if, registered unquoted");
  ST(flt("if=sens*", &r1) == RL_MATCH, "if prefix");
  ST(flt("if=sensors", &r1) == RL_NOMATCH, "if longer");
  ST(flt("rt=x", &r2) == RL_NOMATCH, "attribute absent");
  ST(flt("ct=40", &r2) == RL_MATCH && flt("ct=4", &r2) == RL_NOMATCH && flt("ct=4*", &r2) == RL_MATCH, "generic attr");
  ST(flt("unknown=1", &r2) == RL_NOMATCH, "unknown attribute");
  ST(flt("href=/sensors/temp", &r1) == RL_MATCH, "href exact");
  ST(flt("href=/sensors/*", &r1) == RL_MATCH && flt("href=/sensors/*", &r2) == RL_NOMATCH, "href prefix");
  ST(flt("href=/sensors", &r1) == RL_NOMATCH, "href exact is not a prefix match");
  ST(flt("href=sensors/temp", &r1) == RL_NOMATCH, "href is the URI-reference between < and >, which starts with '/'");
  ST(flt("href=/a", &r2) == RL_MATCH && flt("href=/a*", &r2) == RL_MATCH && flt("href=/a*", &r1) == RL_NOMATCH, "href /a");
  ST(flt("rt", &r1) == RL_UNSPEC && flt("=x", &r1) == RL_UNSPEC && flt("rt=", &r1) == RL_UNSPEC && flt("rt=*", &r1) == RL_UNSPEC,
     "malformed filters are unspecified");
  ST(flt("flag=1", &r2) == RL_UNSPEC, "name-only attribute");
  ST(flt("obs=1", &r2) == RL_NOMATCH && flt("obs=1", &r1) == RL_UNSPEC, "obs marker is a name-only attribute");
  return 0;
}
