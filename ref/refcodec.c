/* refcodec -- see refcodec.h.  Written from RFC 7252 / 8323 / 8974 and the option-defining RFCs. */
#include "refcodec.h"
#include <string.h>

/* ------------------------------------------------------------------------------------------ */
/* option value length limits                                                                  */

struct lim {
  uint32_t number;
  uint32_t min, max;
};

/* RFC 7252 5.10 table 4 and the later option-defining RFCs.  Only options that have *defined*
 * limits are listed; anything else may be as long as the message allows. */
static const struct lim base_limits[] = {
    {1, 0, 8},      /* If-Match        opaque 0-8    RFC 7252 */
    {3, 1, 255},    /* Uri-Host        string 1-255  RFC 7252 */
    {4, 1, 8},      /* ETag            opaque 1-8    RFC 7252 */
    {5, 0, 0},      /* If-None-Match   empty  0      RFC 7252 */
    {6, 0, 3},      /* Observe         uint   0-3    RFC 7641 */
    {7, 0, 2},      /* Uri-Port        uint   0-2    RFC 7252 */
    {8, 0, 255},    /* Location-Path   string 0-255  RFC 7252 */
    {9, 0, 255},    /* OSCORE          opaque 0-255  RFC 8613 */
    {11, 0, 255},   /* Uri-Path        string 0-255  RFC 7252 */
    {12, 0, 2},     /* Content-Format  uint   0-2    RFC 7252 */
    {14, 0, 4},     /* Max-Age         uint   0-4    RFC 7252 */
    {15, 0, 255},   /* Uri-Query       string 0-255  RFC 7252 */
    {16, 1, 1},     /* Hop-Limit       uint   1      RFC 8768 */
    {17, 0, 2},     /* Accept          uint   0-2    RFC 7252 */
    {20, 0, 255},   /* Location-Query  string 0-255  RFC 7252 */
    {23, 0, 3},     /* Block2          uint   0-3    RFC 7959 */
    {27, 0, 3},     /* Block1          uint   0-3    RFC 7959 */
    {28, 0, 4},     /* Size2           uint   0-4    RFC 7959 */
    {35, 1, 1034},  /* Proxy-Uri       string 1-1034 RFC 7252 */
    {39, 1, 255},   /* Proxy-Scheme    string 1-255  RFC 7252 */
    {60, 0, 4},     /* Size1           uint   0-4    RFC 7252 */
    {252, 1, 40},   /* Echo            opaque 1-40   RFC 9175 */
    {258, 0, 1},    /* No-Response     uint   0-1    RFC 7967 */
    {292, 0, 8},    /* Request-Tag     opaque 0-8    RFC 9175 */
};

/* RFC 8323 5.3-5.6 (+ RFC 8974 Extended-Token-Length), per signalling code */
static const struct lim csm_limits[] = {
    {2, 0, 4}, /* Max-Message-Size       uint  0-4 */
    {4, 0, 0}, /* Block-Wise-Transfer    empty 0   */
    {6, 0, 3}, /* Extended-Token-Length  uint  0-3  RFC 8974 */
};
static const struct lim pingpong_limits[] = {
    {2, 0, 0}, /* Custody                empty 0   */
};
static const struct lim release_limits[] = {
    {2, 1, 255}, /* Alternative-Address  string 1-255 */
    {4, 0, 3},   /* Hold-Off             uint 0-3 */
};
static const struct lim abort_limits[] = {
    {2, 0, 2}, /* Bad-CSM-Option         uint 0-2 */
};

#define NEL(a) (sizeof(a) / sizeof((a)[0]))

static int
lookup(const struct lim *t, size_t n, uint32_t number, size_t *min, size_t *max) {
  for (size_t i = 0; i < n; i++)
    if (t[i].number == number) {
      *min = t[i].min;
      *max = t[i].max;
      return 1;
    }
  return 0;
}

static int
base_lookup(uint32_t number, size_t *min, size_t *max) {
  return lookup(base_limits, NEL(base_limits), number, min, max);
}

/* signalling table of `code`; *known_code says whether RFC 8323 defines options for that code at all */
static int
sig_lookup(uint8_t code, uint32_t number, size_t *min, size_t *max, int *known_code) {
  *known_code = 1;
  switch (code) {
  case 0xE1: /* 7.01 CSM */
    return lookup(csm_limits, NEL(csm_limits), number, min, max);
  case 0xE2: /* 7.02 Ping */
  case 0xE3: /* 7.03 Pong */
    return lookup(pingpong_limits, NEL(pingpong_limits), number, min, max);
  case 0xE4: /* 7.04 Release */
    return lookup(release_limits, NEL(release_limits), number, min, max);
  case 0xE5: /* 7.05 Abort */
    return lookup(abort_limits, NEL(abort_limits), number, min, max);
  default:
    *known_code = 0;
    return 0;
  }
}

int
rc_opt_limits(uint8_t code, uint32_t number, size_t *min, size_t *max) {
  if ((code >> 5) == 7) {
    int known;
    return sig_lookup(code, number, min, max, &known);
  }
  return base_lookup(number, min, max);
}

/* ------------------------------------------------------------------------------------------ */
/* names                                                                                       */

const char *
rc_reason_name(enum rc_reason r) {
  switch (r) {
  case RC_OK: return "ok";
  case RC_HDR_SHORT: return "header-short";
  case RC_VERSION: return "version";
  case RC_TKL_RESERVED: return "tkl-reserved";
  case RC_TOKEN_TRUNC: return "token-truncated";
  case RC_EMPTY_NOT_EMPTY: return "empty-not-empty";
  case RC_OPT_DELTA_15: return "opt-delta-nibble-15";
  case RC_OPT_LEN_15: return "opt-length-nibble-15";
  case RC_OPT_HDR_TRUNC: return "opt-header-truncated";
  case RC_OPT_NUM_OVER: return "opt-number>65535";
  case RC_OPT_VALUE_TRUNC: return "opt-value-truncated";
  case RC_OPT_LEN_LIMIT: return "opt-length-limit";
  case RC_MARKER_NO_PAYLOAD: return "marker-no-payload";
  case RC_STREAM_SHORT: return "stream-length-short";
  case RC_STREAM_LONG: return "stream-length-long";
  case RC_WS_LEN_NONZERO: return "ws-len-nonzero";
  case RC_REF_CAPACITY: return "ref-capacity";
  default: return "?";
  }
}

const char *
rc_framing_name(enum rc_framing f) {
  return f == RC_UDP ? "udp" : f == RC_TCP ? "tcp" : "ws";
}

/* ------------------------------------------------------------------------------------------ */
/* decoder                                                                                     */

static enum rc_reason
fail(struct rc_msg *m, enum rc_reason r, size_t off) {
  m->reason = r;
  m->err_off = off;
  return r;
}

/* Decodes one 4-bit field with its extension: nib 0-12 -> nib; 13 -> 13 + 1 byte; 14 -> 269 + 2 bytes.
 * *pos is advanced past the extension bytes.  Returns 0 if the extension bytes are not inside [.., end). */
static int
ext_value(const uint8_t *buf, size_t end, size_t *pos, unsigned nib, uint64_t *v, uint8_t *n) {
  if (nib <= 12) {
    *v = nib;
    *n = 0;
    return 1;
  }
  if (nib == 13) {
    if (end - *pos < 1)
      return 0;
    *v = 13 + (uint64_t)buf[*pos];
    *pos += 1;
    *n = 1;
    return 1;
  }
  /* nib == 14 (15 is handled by the callers) */
  if (end - *pos < 2)
    return 0;
  *v = 269 + (uint64_t)buf[*pos] * 256 + (uint64_t)buf[*pos + 1];
  *pos += 2;
  *n = 2;
  return 1;
}

/* Token (RFC 7252 3 / RFC 8974 2.1) starting at `pos`, inside [.., end). */
static enum rc_reason
decode_token(const uint8_t *buf, size_t end, size_t pos, unsigned flags, struct rc_msg *m) {
  unsigned tkl = m->tkl_nibble;
  uint64_t tl;
  m->tklext_off = pos;
  m->tklext_n = 0;
  if (tkl == 15)
    return fail(m, RC_TKL_RESERVED, 0);
  if ((flags & RC_F_TKL_7252) && tkl > 8)
    return fail(m, RC_TKL_RESERVED, 0);
  if (!ext_value(buf, end, &pos, tkl, &tl, &m->tklext_n))
    return fail(m, RC_TOKEN_TRUNC, pos);
  m->token_off = pos;
  if ((uint64_t)(end - pos) < tl)
    return fail(m, RC_TOKEN_TRUNC, pos);
  m->token_len = (size_t)tl;
  m->opts_off = pos + (size_t)tl;
  return RC_OK;
}

/* Options and payload (RFC 7252 3 / 3.1) in [m->opts_off, end). */
static enum rc_reason
decode_options(const uint8_t *buf, size_t end, unsigned flags, struct rc_msg *m) {
  size_t p = m->opts_off;
  uint64_t number = 0;
  int sig_class = (m->code >> 5) == 7;

  m->nopts = 0;
  m->has_marker = 0;
  m->payload_off = end;
  m->payload_len = 0;
  m->opts_end = end;
  while (p < end) {
    uint8_t b = buf[p];
    if (b == 0xFF) {
      m->opts_end = p;
      m->has_marker = 1;
      if (p + 1 == end)
        return fail(m, RC_MARKER_NO_PAYLOAD, p);
      m->payload_off = p + 1;
      m->payload_len = end - (p + 1);
      return RC_OK;
    }
    unsigned dn = b >> 4, ln = b & 15;
    if (dn == 15)
      return fail(m, RC_OPT_DELTA_15, p);
    if (ln == 15)
      return fail(m, RC_OPT_LEN_15, p);
    if (m->nopts >= RC_MAX_OPTS)
      return fail(m, RC_REF_CAPACITY, p);
    struct rc_opt *o = &m->opts[m->nopts];
    size_t q = p + 1;
    uint64_t delta, vlen;
    o->hdr_off = p;
    if (!ext_value(buf, end, &q, dn, &delta, &o->dext_n))
      return fail(m, RC_OPT_HDR_TRUNC, p);
    number += delta; /* 64-bit: cannot wrap */
    if (number > 65535) {
      m->bad_number = number > 0xFFFFFFFFull ? 0xFFFFFFFFu : (uint32_t)number;
      return fail(m, RC_OPT_NUM_OVER, p);
    }
    if (!ext_value(buf, end, &q, ln, &vlen, &o->lext_n))
      return fail(m, RC_OPT_HDR_TRUNC, p);
    if ((uint64_t)(end - q) < vlen)
      return fail(m, RC_OPT_VALUE_TRUNC, p);
    o->number = (uint32_t)number;
    o->val_off = q;
    o->len = (size_t)vlen;
    m->nopts++;

    if (!(flags & RC_F_NO_LIMITS)) {
      size_t mn = 0, mx = 0;
      if (!sig_class) {
        if (base_lookup(o->number, &mn, &mx) && (o->len < mn || o->len > mx)) {
          m->bad_number = o->number;
          m->bad_len = o->len;
          m->bad_below_min = o->len < mn;
          return fail(m, RC_OPT_LEN_LIMIT, p);
        }
      } else {
        int known_code;
        int in_sig = sig_lookup(m->code, o->number, &mn, &mx, &known_code);
        int sig_bad = in_sig && (o->len < mn || o->len > mx);
        if (m->framing == RC_UDP) {
          /* RFC 8323 defines the signalling codes for reliable transports only; what their options
           * mean in a datagram is not defined anywhere.  Definite only if both readings agree. */
          size_t bmn = 0, bmx = 0;
          int base_bad = base_lookup(o->number, &bmn, &bmx) && (o->len < bmn || o->len > bmx);
          if (sig_bad != base_bad || (known_code && !in_sig && (o->number & 1)))
            m->unspecified = 1;
          else if (sig_bad) {
            m->bad_number = o->number;
            m->bad_len = o->len;
            m->bad_below_min = o->len < mn;
            return fail(m, RC_OPT_LEN_LIMIT, p);
          }
        } else {
          if (sig_bad) {
            m->bad_number = o->number;
            m->bad_len = o->len;
            m->bad_below_min = o->len < mn;
            return fail(m, RC_OPT_LEN_LIMIT, p);
          }
          /* unknown critical signalling option: RFC 8323 5.2 asks for an Abort, i.e. it is a matter of
           * message processing, not of the message format */
          if (known_code && !in_sig && (o->number & 1))
            m->unspecified = 1;
        }
      }
    }
    p = q + (size_t)vlen;
  }
  return RC_OK;
}

enum rc_reason
rc_decode(enum rc_framing framing, const uint8_t *buf, size_t len, unsigned flags, struct rc_msg *m) {
  /* scalar part only: the option array is large and every entry < nopts is written before use */
  m->framing = framing;
  m->ver = m->type = m->code = 0;
  m->mid = 0;
  m->tkl_nibble = m->len_nibble = m->lenext_n = 0;
  m->stream_len = 0;
  m->code_off = m->tklext_off = m->token_off = m->opts_off = 0;
  m->tklext_n = 0;
  m->token_len = 0;
  m->nopts = 0;
  m->opts_end = len;
  m->has_marker = 0;
  m->payload_off = len;
  m->payload_len = 0;
  m->reason = RC_OK;
  m->err_off = 0;
  m->bad_number = 0;
  m->bad_len = 0;
  m->bad_below_min = 0;
  m->unspecified = 0;

  if (framing == RC_UDP) {
    /*  0                   1                   2                   3
     *  |Ver| T |  TKL  |      Code     |          Message ID           |   RFC 7252 figure 7 */
    if (len < 4)
      return fail(m, RC_HDR_SHORT, len);
    m->ver = buf[0] >> 6;
    m->type = (buf[0] >> 4) & 3;
    m->tkl_nibble = buf[0] & 15;
    m->code = buf[1];
    m->code_off = 1;
    m->mid = (uint16_t)(buf[2] * 256 + buf[3]);
    m->tklext_off = m->token_off = m->opts_off = 4;
    if (m->ver != 1)
      return fail(m, RC_VERSION, 0);
    /* RFC 7252 4.1: Empty = Code 0.00, TKL 0, no bytes after the Message ID */
    if (m->code == 0 && (m->tkl_nibble != 0 || len != 4))
      return fail(m, RC_EMPTY_NOT_EMPTY, m->tkl_nibble ? 0 : 4);
    if (decode_token(buf, len, 4, flags, m) != RC_OK)
      return m->reason;
    return decode_options(buf, len, flags, m);
  }

  if (framing == RC_WS) {
    /* | Len=0 |  TKL  |      Code     |    Token (TKL bytes) ...                 RFC 8323 figure 11 */
    if (len < 2)
      return fail(m, RC_HDR_SHORT, len);
    m->len_nibble = buf[0] >> 4;
    m->tkl_nibble = buf[0] & 15;
    m->code = buf[1];
    m->code_off = 1;
    m->tklext_off = m->token_off = m->opts_off = 2;
    if (m->len_nibble != 0 && !(flags & RC_F_WS_ANY_LEN))
      return fail(m, RC_WS_LEN_NONZERO, 0);
    if (m->code == 0 && (m->tkl_nibble != 0 || len != 2))
      return fail(m, RC_EMPTY_NOT_EMPTY, m->tkl_nibble ? 0 : 2);
    if (decode_token(buf, len, 2, flags, m) != RC_OK)
      return m->reason;
    return decode_options(buf, len, flags, m);
  }

  /* RC_TCP: | Len | TKL | Extended Length (0/1/2/4) | Code | [ext TKL] Token | Options | FF Payload |
   * RFC 8323 figures 4-8, 3.2: Len = size of Options + marker + Payload */
  if (len < 1)
    return fail(m, RC_HDR_SHORT, 0);
  m->len_nibble = buf[0] >> 4;
  m->tkl_nibble = buf[0] & 15;
  m->lenext_n = m->len_nibble <= 12 ? 0 : m->len_nibble == 13 ? 1 : m->len_nibble == 14 ? 2 : 4;
  size_t hdr = 1 + (size_t)m->lenext_n + 1;
  if (len < hdr)
    return fail(m, RC_HDR_SHORT, len);
  if (m->len_nibble <= 12)
    m->stream_len = m->len_nibble;
  else if (m->len_nibble == 13)
    m->stream_len = 13 + (uint64_t)buf[1];
  else if (m->len_nibble == 14)
    m->stream_len = 269 + (uint64_t)buf[1] * 256 + buf[2];
  else
    m->stream_len =
        65805 + (uint64_t)buf[1] * 16777216ull + (uint64_t)buf[2] * 65536ull + (uint64_t)buf[3] * 256ull + buf[4];
  m->code_off = hdr - 1;
  m->code = buf[m->code_off];
  m->tklext_off = m->token_off = m->opts_off = hdr;
  if (m->tkl_nibble == 15 || ((flags & RC_F_TKL_7252) && m->tkl_nibble > 8))
    return fail(m, RC_TKL_RESERVED, 0);
  /* delimit the message: header + (extended TKL bytes + token) + Len */
  {
    size_t pos = hdr;
    uint64_t tl;
    if (!ext_value(buf, len, &pos, m->tkl_nibble, &tl, &m->tklext_n))
      return fail(m, RC_STREAM_SHORT, len);
    uint64_t total = (uint64_t)pos + tl + m->stream_len;
    if ((uint64_t)len < total)
      return fail(m, RC_STREAM_SHORT, len);
    if ((uint64_t)len > total)
      return fail(m, RC_STREAM_LONG, (size_t)total);
    m->token_off = pos;
    m->token_len = (size_t)tl;
    m->opts_off = pos + (size_t)tl;
  }
  if (m->code == 0 && (m->tkl_nibble != 0 || m->stream_len != 0))
    return fail(m, RC_EMPTY_NOT_EMPTY, m->tkl_nibble ? 0 : hdr);
  return decode_options(buf, len, flags, m);
}

int
rc_tcp_frame_size(const uint8_t *buf, size_t avail, uint64_t *total) {
  if (avail < 1)
    return 0;
  unsigned ln = buf[0] >> 4, tkl = buf[0] & 15;
  size_t n = ln <= 12 ? 0 : ln == 13 ? 1 : ln == 14 ? 2 : 4;
  size_t hdr = 1 + n + 1;
  if (tkl == 15)
    return -1;
  size_t tn = tkl == 13 ? 1 : tkl == 14 ? 2 : 0;
  if (avail < hdr + tn)
    return 0;
  uint64_t l;
  if (ln <= 12)
    l = ln;
  else if (ln == 13)
    l = 13 + (uint64_t)buf[1];
  else if (ln == 14)
    l = 269 + (uint64_t)buf[1] * 256 + buf[2];
  else
    l = 65805 + (uint64_t)buf[1] * 16777216ull + (uint64_t)buf[2] * 65536ull + (uint64_t)buf[3] * 256ull + buf[4];
  uint64_t tl = tkl <= 12 ? tkl : tkl == 13 ? 13 + (uint64_t)buf[hdr] : 269 + (uint64_t)buf[hdr] * 256 + buf[hdr + 1];
  *total = hdr + tn + tl + l;
  return 1;
}

/* ------------------------------------------------------------------------------------------ */
/* encoder                                                                                     */

/* nibble + extension bytes for a delta / length / token length value; returns number of ext bytes, or
 * -1 if the value does not fit the format (> 65804) */
static int
put_ext(uint64_t v, unsigned *nib, uint8_t ext[2]) {
  if (v <= 12) {
    *nib = (unsigned)v;
    return 0;
  }
  if (v <= 268) {
    *nib = 13;
    ext[0] = (uint8_t)(v - 13);
    return 1;
  }
  if (v <= 65804) {
    *nib = 14;
    ext[0] = (uint8_t)((v - 269) / 256);
    ext[1] = (uint8_t)((v - 269) % 256);
    return 2;
  }
  return -1;
}

size_t
rc_put_tcp_header(uint8_t *out, uint64_t len, uint8_t tkl_nibble, uint8_t code) {
  size_t n = 0;
  if (len <= 12) {
    out[n++] = (uint8_t)((len << 4) | (tkl_nibble & 15));
  } else if (len <= 268) {
    out[n++] = (uint8_t)(0xD0 | (tkl_nibble & 15));
    out[n++] = (uint8_t)(len - 13);
  } else if (len <= 65804) {
    out[n++] = (uint8_t)(0xE0 | (tkl_nibble & 15));
    out[n++] = (uint8_t)((len - 269) / 256);
    out[n++] = (uint8_t)((len - 269) % 256);
  } else {
    uint64_t v = len - 65805;
    out[n++] = (uint8_t)(0xF0 | (tkl_nibble & 15));
    out[n++] = (uint8_t)(v / 16777216ull);
    out[n++] = (uint8_t)((v / 65536ull) % 256);
    out[n++] = (uint8_t)((v / 256ull) % 256);
    out[n++] = (uint8_t)(v % 256);
  }
  out[n++] = code;
  return n;
}

void
rc_sort_opts(struct rc_eopt *o, int n) {
  for (int i = 1; i < n; i++) {
    struct rc_eopt t = o[i];
    int j = i;
    while (j > 0 && o[j - 1].number > t.number) {
      o[j] = o[j - 1];
      j--;
    }
    o[j] = t;
  }
}

size_t
rc_encode(const struct rc_emsg *m, uint8_t *out, size_t cap) {
  /* 1. body = options + marker + payload, measured first (the TCP header needs its size) */
  uint64_t body = 0;
  uint32_t prev = 0;
  for (int i = 0; i < m->nopts; i++) {
    unsigned nib;
    uint8_t e[2];
    if (m->opts[i].number > 65535 || m->opts[i].number < prev)
      return 0;
    int dn = put_ext(m->opts[i].number - prev, &nib, e);
    int ln = put_ext(m->opts[i].len, &nib, e);
    if (dn < 0 || ln < 0)
      return 0;
    body += 1 + (uint64_t)dn + (uint64_t)ln + m->opts[i].len;
    prev = m->opts[i].number;
  }
  if (m->payload_len)
    body += 1 + (uint64_t)m->payload_len;

  unsigned tkl_nib;
  uint8_t tkl_ext[2];
  int tkl_n = put_ext(m->token_len, &tkl_nib, tkl_ext);
  if (tkl_n < 0)
    return 0;

  uint8_t hdr[6];
  size_t hn;
  if (m->framing == RC_UDP) {
    hdr[0] = (uint8_t)(0x40 | ((m->type & 3) << 4) | tkl_nib);
    hdr[1] = m->code;
    hdr[2] = (uint8_t)(m->mid >> 8);
    hdr[3] = (uint8_t)(m->mid & 255);
    hn = 4;
  } else if (m->framing == RC_WS) {
    hdr[0] = (uint8_t)tkl_nib;
    hdr[1] = m->code;
    hn = 2;
  } else {
    hn = rc_put_tcp_header(hdr, body, (uint8_t)tkl_nib, m->code);
  }
  uint64_t total = hn + (uint64_t)tkl_n + m->token_len + body;
  if (total > cap)
    return 0;

  size_t p = 0;
  memcpy(out + p, hdr, hn);
  p += hn;
  for (int i = 0; i < tkl_n; i++)
    out[p++] = tkl_ext[i];
  if (m->token_len)
    memcpy(out + p, m->token, m->token_len);
  p += m->token_len;
  prev = 0;
  for (int i = 0; i < m->nopts; i++) {
    unsigned dnib, lnib;
    uint8_t de[2], le[2];
    int dn = put_ext(m->opts[i].number - prev, &dnib, de);
    int ln = put_ext(m->opts[i].len, &lnib, le);
    out[p++] = (uint8_t)((dnib << 4) | lnib);
    for (int k = 0; k < dn; k++)
      out[p++] = de[k];
    for (int k = 0; k < ln; k++)
      out[p++] = le[k];
    if (m->opts[i].len)
      memcpy(out + p, m->opts[i].val, m->opts[i].len);
    p += m->opts[i].len;
    prev = m->opts[i].number;
  }
  if (m->payload_len) {
    out[p++] = 0xFF;
    memcpy(out + p, m->payload, m->payload_len);
    p += m->payload_len;
  }
  return p;
}

/* ------------------------------------------------------------------------------------------ */
/* self-test: hand-computed vectors (from the RFC figures / examples) and round trips           */

#define CHECK(c)                                                                                                       \
  do {                                                                                                                 \
    if (!(c))                                                                                                          \
      return __LINE__;                                                                                                 \
  } while (0)

static struct rc_msg st_msg; /* large; keep it off the stack */

static int
roundtrip(enum rc_framing f, size_t toklen, const struct rc_eopt *opts, int nopts, size_t paylen) {
  static uint8_t tok[70000], pay[64], enc[140000];
  for (size_t i = 0; i < sizeof tok; i++)
    tok[i] = (uint8_t)(i * 7 + 1);
  for (size_t i = 0; i < sizeof pay; i++)
    pay[i] = (uint8_t)(0xA0 + i);
  struct rc_emsg e = {f, 2, 0x45, 0xBEEF, tok, toklen, opts, nopts, pay, paylen};
  size_t n = rc_encode(&e, enc, sizeof enc);
  if (!n)
    return 0;
  if (rc_decode(f, enc, n, 0, &st_msg) != RC_OK)
    return 0;
  if (st_msg.code != 0x45 || st_msg.token_len != toklen || memcmp(enc + st_msg.token_off, tok, toklen))
    return 0;
  if (f == RC_UDP && (st_msg.type != 2 || st_msg.mid != 0xBEEF || st_msg.ver != 1))
    return 0;
  if (st_msg.nopts != nopts)
    return 0;
  for (int i = 0; i < nopts; i++)
    if (st_msg.opts[i].number != opts[i].number || st_msg.opts[i].len != opts[i].len ||
        memcmp(enc + st_msg.opts[i].val_off, opts[i].val, opts[i].len))
      return 0;
  if (st_msg.payload_len != paylen || (paylen && memcmp(enc + st_msg.payload_off, pay, paylen)))
    return 0;
  /* every proper prefix of a well-formed stream message is "short"; one more byte is "long" */
  if (f == RC_TCP) {
    for (size_t k = 0; k < n && k < 40; k++) {
      enum rc_reason r = rc_decode(f, enc, k, 0, &st_msg);
      if (r != RC_STREAM_SHORT && r != RC_HDR_SHORT)
        return 0;
    }
    enc[n] = 0;
    if (rc_decode(f, enc, n + 1, 0, &st_msg) != RC_STREAM_LONG)
      return 0;
    uint64_t tot;
    if (rc_tcp_frame_size(enc, n, &tot) != 1 || tot != n)
      return 0;
  }
  return 1;
}

int
rc_selftest(void) {
  struct rc_msg *m = &st_msg;
  /* RFC 7252: CON GET, mid 0x7d34, no token, Uri-Path "temperature" (figure 16) */
  static const uint8_t v1[] = {0x40, 0x01, 0x7d, 0x34, 0xbb, 't', 'e', 'm', 'p', 'e', 'r', 'a', 't', 'u', 'r', 'e'};
  CHECK(rc_decode(RC_UDP, v1, sizeof v1, 0, m) == RC_OK);
  CHECK(m->type == 0 && m->code == 1 && m->mid == 0x7d34 && m->token_len == 0 && m->nopts == 1);
  CHECK(m->opts[0].number == 11 && m->opts[0].len == 11 && !memcmp(v1 + m->opts[0].val_off, "temperature", 11));
  CHECK(m->payload_len == 0 && !m->has_marker);
  /* ACK 2.05, token 0x20, payload "22.3 C" (figure 17 shape) */
  static const uint8_t v2[] = {0x61, 0x45, 0x7d, 0x34, 0x20, 0xff, '2', '2', '.', '3', ' ', 'C'};
  CHECK(rc_decode(RC_UDP, v2, sizeof v2, 0, m) == RC_OK);
  CHECK(m->type == 2 && m->code == 0x45 && m->token_len == 1 && v2[m->token_off] == 0x20 && m->nopts == 0);
  CHECK(m->payload_len == 6 && !memcmp(v2 + m->payload_off, "22.3 C", 6));
  /* Empty */
  static const uint8_t v3[] = {0x70, 0x00, 0x12, 0x34};
  CHECK(rc_decode(RC_UDP, v3, 4, 0, m) == RC_OK && m->type == 3);
  static const uint8_t v3b[] = {0x40, 0x00, 0x12, 0x34, 0xff, 0x01};
  CHECK(rc_decode(RC_UDP, v3b, 6, 0, m) == RC_EMPTY_NOT_EMPTY);
  CHECK(rc_decode(RC_UDP, v3b, 5, 0, m) == RC_EMPTY_NOT_EMPTY);
  static const uint8_t v3c[] = {0x41, 0x00, 0x12, 0x34, 0x01};
  CHECK(rc_decode(RC_UDP, v3c, 5, 0, m) == RC_EMPTY_NOT_EMPTY);
  /* header */
  CHECK(rc_decode(RC_UDP, v1, 3, 0, m) == RC_HDR_SHORT);
  static const uint8_t v4[] = {0x80, 0x01, 0x12, 0x34};
  CHECK(rc_decode(RC_UDP, v4, 4, 0, m) == RC_VERSION);
  static const uint8_t v5[] = {0x4f, 0x01, 0x12, 0x34, 0, 0, 0, 0, 0, 0, 0, 0, 0, 0, 0, 0, 0, 0, 0, 0};
  CHECK(rc_decode(RC_UDP, v5, sizeof v5, 0, m) == RC_TKL_RESERVED);
  /* TKL 9: token of 9 bytes under RFC 8974, reserved under plain RFC 7252 */
  static const uint8_t v6[] = {0x49, 0x01, 0x12, 0x34, 1, 2, 3, 4, 5, 6, 7, 8, 9};
  CHECK(rc_decode(RC_UDP, v6, sizeof v6, 0, m) == RC_OK && m->token_len == 9);
  CHECK(rc_decode(RC_UDP, v6, sizeof v6, RC_F_TKL_7252, m) == RC_TKL_RESERVED);
  CHECK(rc_decode(RC_UDP, v6, sizeof v6 - 1, 0, m) == RC_TOKEN_TRUNC);
  /* TKL 13: one extension byte, token length 13 + 0 */
  static const uint8_t v7[] = {0x4d, 0x01, 0x12, 0x34, 0x00, 1, 2, 3, 4, 5, 6, 7, 8, 9, 10, 11, 12, 13};
  CHECK(rc_decode(RC_UDP, v7, sizeof v7, 0, m) == RC_OK && m->token_len == 13 && m->token_off == 5 && m->tklext_n == 1);
  CHECK(rc_decode(RC_UDP, v7, sizeof v7 - 1, 0, m) == RC_TOKEN_TRUNC);
  CHECK(rc_decode(RC_UDP, v7, 4, 0, m) == RC_TOKEN_TRUNC);
  /* options: reserved nibbles, truncation, marker */
  static const uint8_t o1[] = {0x40, 0x01, 0x12, 0x34, 0xf0};
  CHECK(rc_decode(RC_UDP, o1, 5, 0, m) == RC_OPT_DELTA_15);
  static const uint8_t o2[] = {0x40, 0x01, 0x12, 0x34, 0x0f};
  CHECK(rc_decode(RC_UDP, o2, 5, 0, m) == RC_OPT_LEN_15);
  static const uint8_t o3[] = {0x40, 0x01, 0x12, 0x34, 0xff};
  CHECK(rc_decode(RC_UDP, o3, 5, 0, m) == RC_MARKER_NO_PAYLOAD);
  static const uint8_t o4[] = {0x40, 0x01, 0x12, 0x34, 0xd0};
  CHECK(rc_decode(RC_UDP, o4, 5, 0, m) == RC_OPT_HDR_TRUNC);
  static const uint8_t o5[] = {0x40, 0x01, 0x12, 0x34, 0xb2, 'a'};
  CHECK(rc_decode(RC_UDP, o5, 6, 0, m) == RC_OPT_VALUE_TRUNC);
  /* delta 14-form: 269 + 0xFEFF = 65548 > 65535; 269 + 0xFEF2 = 65535 is the last legal number */
  static const uint8_t o6[] = {0x40, 0x01, 0x12, 0x34, 0xe0, 0xfe, 0xff};
  CHECK(rc_decode(RC_UDP, o6, 7, 0, m) == RC_OPT_NUM_OVER && m->bad_number == 65548);
  static const uint8_t o7[] = {0x40, 0x01, 0x12, 0x34, 0xe0, 0xfe, 0xf2};
  CHECK(rc_decode(RC_UDP, o7, 7, 0, m) == RC_OK && m->nopts == 1 && m->opts[0].number == 65535);
  /* sum over two options crossing 65535 */
  static const uint8_t o8[] = {0x40, 0x01, 0x12, 0x34, 0xe0, 0xfe, 0xf2, 0x10};
  CHECK(rc_decode(RC_UDP, o8, 8, 0, m) == RC_OPT_NUM_OVER && m->bad_number == 65536);
  /* 13-form: delta 13 + 0x02 = 15 (Uri-Query), length 13 + 0 */
  static const uint8_t o9[] = {0x40, 0x01, 0x12, 0x34, 0xdd, 0x02, 0x00, 1, 2, 3, 4, 5, 6, 7, 8, 9, 10, 11, 12, 13};
  CHECK(rc_decode(RC_UDP, o9, sizeof o9, 0, m) == RC_OK && m->opts[0].number == 15 && m->opts[0].len == 13);
  CHECK(m->opts[0].dext_n == 1 && m->opts[0].lext_n == 1 && m->opts[0].val_off == 7);
  /* limits: If-None-Match (5) must be empty, ETag (4) 1-8, unknown option 2 unlimited */
  static const uint8_t l1[] = {0x40, 0x01, 0x12, 0x34, 0x51, 0x00};
  CHECK(rc_decode(RC_UDP, l1, 6, 0, m) == RC_OPT_LEN_LIMIT && m->bad_number == 5 && !m->bad_below_min);
  CHECK(rc_decode(RC_UDP, l1, 6, RC_F_NO_LIMITS, m) == RC_OK);
  static const uint8_t l2[] = {0x40, 0x01, 0x12, 0x34, 0x40};
  CHECK(rc_decode(RC_UDP, l2, 5, 0, m) == RC_OPT_LEN_LIMIT && m->bad_number == 4 && m->bad_below_min);
  static const uint8_t l3[] = {0x40, 0x01, 0x12, 0x34, 0x2c, 1, 2, 3, 4, 5, 6, 7, 8, 9, 10, 11, 12};
  CHECK(rc_decode(RC_UDP, l3, sizeof l3, 0, m) == RC_OK && m->opts[0].number == 2 && m->opts[0].len == 12);
  /* TCP: Len nibble form, RFC 8323: 2.05 with token 0x20 and payload "hi": Len = 3 */
  static const uint8_t t1[] = {0x31, 0x45, 0x20, 0xff, 'h', 'i'};
  CHECK(rc_decode(RC_TCP, t1, 6, 0, m) == RC_OK && m->code == 0x45 && m->token_len == 1 && m->payload_len == 2);
  CHECK(rc_decode(RC_TCP, t1, 5, 0, m) == RC_STREAM_SHORT);
  static const uint8_t t2[] = {0x00, 0x00};
  CHECK(rc_decode(RC_TCP, t2, 2, 0, m) == RC_OK);
  static const uint8_t t3[] = {0x01, 0x00, 0x01};
  CHECK(rc_decode(RC_TCP, t3, 3, 0, m) == RC_EMPTY_NOT_EMPTY);
  /* 13-form: Len = 13 + 0: one option 2 with 12 bytes */
  static const uint8_t t4[] = {0xd0, 0x00, 0x01, 0x2c, 1, 2, 3, 4, 5, 6, 7, 8, 9, 10, 11, 12};
  CHECK(rc_decode(RC_TCP, t4, sizeof t4, 0, m) == RC_OK && m->lenext_n == 1 && m->stream_len == 13 && m->code == 1);
  CHECK(m->nopts == 1 && m->opts[0].len == 12);
  /* CSM 7.01 with Max-Message-Size (2) = 4 bytes; 5 bytes is over the limit */
  static const uint8_t t5[] = {0x50, 0xe1, 0x24, 0, 0, 4, 0};
  CHECK(rc_decode(RC_TCP, t5, 7, 0, m) == RC_OK && !m->unspecified);
  static const uint8_t t6[] = {0x60, 0xe1, 0x25, 0, 0, 4, 0, 0};
  CHECK(rc_decode(RC_TCP, t6, 8, 0, m) == RC_OPT_LEN_LIMIT);
  static const uint8_t t7[] = {0x10, 0xe1, 0x10}; /* unknown critical option 1 in a CSM */
  CHECK(rc_decode(RC_TCP, t7, 3, 0, m) == RC_OK && m->unspecified);
  /* WS */
  static const uint8_t w1[] = {0x01, 0x45, 0x20, 0xff, 'h', 'i'};
  CHECK(rc_decode(RC_WS, w1, 6, 0, m) == RC_OK && m->token_len == 1 && m->payload_len == 2);
  static const uint8_t w2[] = {0x31, 0x45, 0x20, 0xff, 'h', 'i'};
  CHECK(rc_decode(RC_WS, w2, 6, 0, m) == RC_WS_LEN_NONZERO);
  CHECK(rc_decode(RC_WS, w2, 6, RC_F_WS_ANY_LEN, m) == RC_OK);

  /* encoder vectors */
  {
    uint8_t out[64];
    struct rc_eopt o = {11, (const uint8_t *)"temperature", 11};
    struct rc_emsg e = {RC_UDP, 0, 1, 0x7d34, NULL, 0, &o, 1, NULL, 0};
    CHECK(rc_encode(&e, out, sizeof out) == sizeof v1 && !memcmp(out, v1, sizeof v1));
    uint8_t tk = 0x20;
    struct rc_emsg e2 = {RC_TCP, 0, 0x45, 0, &tk, 1, NULL, 0, (const uint8_t *)"hi", 2};
    CHECK(rc_encode(&e2, out, sizeof out) == sizeof t1 && !memcmp(out, t1, sizeof t1));
    e2.framing = RC_WS;
    CHECK(rc_encode(&e2, out, sizeof out) == sizeof w1 && !memcmp(out, w1, sizeof w1));
    uint8_t h[6];
    CHECK(rc_put_tcp_header(h, 12, 3, 9) == 2 && h[0] == 0xc3 && h[1] == 9);
    CHECK(rc_put_tcp_header(h, 13, 3, 9) == 3 && h[0] == 0xd3 && h[1] == 0 && h[2] == 9);
    CHECK(rc_put_tcp_header(h, 268, 3, 9) == 3 && h[1] == 255);
    CHECK(rc_put_tcp_header(h, 269, 3, 9) == 4 && h[0] == 0xe3 && h[1] == 0 && h[2] == 0 && h[3] == 9);
    CHECK(rc_put_tcp_header(h, 65804, 3, 9) == 4 && h[1] == 255 && h[2] == 255);
    CHECK(rc_put_tcp_header(h, 65805, 3, 9) == 6 && h[0] == 0xf3 && h[1] == 0 && h[4] == 0 && h[5] == 9);
    CHECK(rc_put_tcp_header(h, 65805 + 0x01020304, 3, 9) == 6 && h[1] == 1 && h[2] == 2 && h[3] == 3 && h[4] == 4);
  }
  /* round trips over every class boundary */
  {
    static uint8_t val[70000];
    for (size_t i = 0; i < sizeof val; i++)
      val[i] = (uint8_t)(i * 13 + 5);
    static const size_t toks[] = {0, 1, 8, 12, 13, 268, 269, 65804};
    static const uint32_t nums[] = {0, 2, 12, 13, 268, 269, 300, 65535};
    static const size_t lens[] = {0, 1, 12, 13, 268, 269, 1000, 65804};
    for (int f = 0; f < 3; f++)
      for (size_t t = 0; t < NEL(toks); t++)
        for (size_t a = 0; a < NEL(nums); a++)
          for (size_t l = 0; l < NEL(lens); l++) {
            struct rc_eopt o[2] = {{nums[a], val, lens[l]}, {nums[a] > 65000 ? 65535 : nums[a] + 269, val + 3, 2}};
            size_t mn, mx;
            if (rc_opt_limits(0x45, o[0].number, &mn, &mx) || rc_opt_limits(0x45, o[1].number, &mn, &mx))
              continue; /* round trips use options without limits only */
            CHECK(roundtrip((enum rc_framing)f, toks[t], o, 2, l % 3 == 0 ? 0 : l % 3 == 1 ? 1 : 13));
            CHECK(roundtrip((enum rc_framing)f, toks[t], o, 1, 0));
          }
    CHECK(roundtrip(RC_TCP, 0, NULL, 0, 0));
    /* encoder refuses what the format cannot carry */
    uint8_t out[32];
    struct rc_eopt bad1[2] = {{5, val, 0}, {4, val, 1}};
    struct rc_emsg e = {RC_UDP, 0, 1, 1, NULL, 0, bad1, 2, NULL, 0};
    CHECK(rc_encode(&e, out, sizeof out) == 0);
    rc_sort_opts(bad1, 2);
    CHECK(rc_encode(&e, out, sizeof out) == 7);
    struct rc_eopt bad2 = {65536, val, 0};
    e.opts = &bad2;
    e.nopts = 1;
    CHECK(rc_encode(&e, out, sizeof out) == 0);
    e.nopts = 0;
    e.token = val;
    e.token_len = 65805;
    CHECK(rc_encode(&e, out, sizeof out) == 0);
  }
  return 0;
}
