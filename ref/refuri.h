/* refuri -- boring reference for URI <-> CoAP option conversion.
 *
 * Written from the specifications only (no libcoap code, no libcoap headers):
 *   RFC 3986  section 3 (component split, appendix B), 2.1 (percent-encoding, decoded exactly once),
 *             3.2.2 (IP-literal / IPv6address grammar), 5.2.4 (remove_dot_segments), 6.2.2.2/6.2.2.3
 *             (an escaped unreserved character is equivalent to the character itself: "%2e" is a dot)
 *   RFC 7252  section 6.1/6.2 (coap / coaps URI: no userinfo, no fragment, host not empty, default ports),
 *             6.4 (URI -> Uri-Host / Uri-Port / Uri-Path / Uri-Query), 6.5 (options -> URI), 5.10.1
 *   RFC 8323  section 8 (coap+tcp, coaps+tcp, coap+ws, coaps+ws and their default ports)
 *   RFC 7230  section 2.7 (http / https default ports, empty host invalid)
 *
 * Everything is length-delimited (bytes may be 0x00 or >= 0x80); nothing is NUL-terminated.
 */
#ifndef REFURI_H
#define REFURI_H
#include <stddef.h>
#include <stdint.h>

enum ref_scheme {
  REF_COAP = 0,
  REF_COAPS,
  REF_COAP_TCP,
  REF_COAPS_TCP,
  REF_COAP_WS,
  REF_COAPS_WS,
  REF_HTTP,
  REF_HTTPS,
  REF_SCHEME_N
};
struct ref_scheme_info {
  const char *name;
  uint16_t default_port;
  int proxy_only; /* only meaningful inside Proxy-Uri (http, https) */
};
extern const struct ref_scheme_info ref_schemes[REF_SCHEME_N];

/* CoAP option numbers (RFC 7252 section 5.10) */
#define REF_OPT_URI_HOST 3
#define REF_OPT_URI_PORT 7
#define REF_OPT_URI_PATH 11
#define REF_OPT_URI_QUERY 15

/* ---- reasons why a string is not a valid CoAP (or proxy) URI: bit mask, 0 = valid ------------------- */
/* structural: the components cannot even be told apart */
#define REF_R_EMPTY (1u << 0)
#define REF_R_NO_SCHEME (1u << 1)        /* no "<scheme>:" in front (relative reference) or bad scheme syntax */
#define REF_R_SCHEME_UNKNOWN (1u << 2)
#define REF_R_SCHEME_PROXY_ONLY (1u << 3) /* http/https where only a CoAP URI is allowed */
#define REF_R_NO_AUTHORITY (1u << 4)      /* scheme not followed by "//" */
#define REF_R_HOST_EMPTY (1u << 5)        /* RFC 7252 6.1: host MUST NOT be empty */
#define REF_R_IPLIT_UNTERMINATED (1u << 6) /* "[" and no "]" anywhere behind it */
#define REF_R_IPLIT_EMPTY (1u << 7)        /* "[]" */
#define REF_R_IPLIT_JUNK (1u << 8)         /* something other than ":port" between "]" and the end of the authority */
#define REF_R_PORT_NONDIGIT (1u << 9)
#define REF_R_PORT_RANGE (1u << 10)        /* > 65535 */
/* components that exist in RFC 3986 but that a CoAP URI must not have / delimiters in the wrong place */
#define REF_R_FRAGMENT (1u << 11)          /* RFC 7252 6.4 step 4 */
#define REF_R_USERINFO (1u << 12)          /* coap-URI has no userinfo */
#define REF_R_IPLIT_DELIM (1u << 13)       /* "[" ... then "/", "?" or "#" before the matching "]" */
/* character level: a component contains bytes its ABNF does not allow */
#define REF_R_IPLIT_BAD (1u << 14)         /* not an IPv6address / IPvFuture */
#define REF_R_HOST_CHAR (1u << 15)
#define REF_R_HOST_PCT (1u << 16)          /* '%' not followed by two hex digits */
#define REF_R_PATH_CHAR (1u << 17)
#define REF_R_PATH_PCT (1u << 18)
#define REF_R_QUERY_CHAR (1u << 19)
#define REF_R_QUERY_PCT (1u << 20)

#define REF_R_STRUCTURAL 0x000007ffu
#define REF_R_FORBIDDEN_COMPONENT 0x00003800u
#define REF_R_CHARLEVEL 0x001fc000u

const char *ref_reason_name(uint32_t single_bit);
/* name of the lowest set bit, "valid" for 0 */
const char *ref_first_reason(uint32_t mask);

struct ref_span {
  const uint8_t *s;
  size_t n;
};

struct ref_uri {
  int scheme;               /* enum ref_scheme, -1 unknown */
  struct ref_span scheme_s; /* as written */
  int has_authority;
  struct ref_span authority;
  int has_userinfo;
  struct ref_span userinfo;
  struct ref_span host;     /* without the square brackets of an IP-literal; as written (not decoded) */
  int host_is_ipliteral;
  int has_port;             /* a non-empty port was written */
  uint32_t port;            /* written port, or the scheme's default port */
  struct ref_span path;     /* RFC 3986 path: empty or starting with '/' */
  int has_query;
  struct ref_span query;    /* without '?' */
  int has_fragment;
  struct ref_span fragment; /* without '#' */
};

/* RFC 3986 section 3 split + RFC 7252 6.1 / 6.4 steps 1-4 validity.  allow_proxy_schemes: 1 = the string is a
 * Proxy-Uri (http / https admitted).  Returns the reason mask (0 = valid); *u is filled as far as the
 * structure could be determined. */
uint32_t ref_uri_split(const uint8_t *s, size_t n, int allow_proxy_schemes, struct ref_uri *u);

/* ---- segment lists ------------------------------------------------------------------------------- */
#define REF_MAXSEG 48
#define REF_MAXSEGLEN 288
struct ref_seglist {
  int n;
  size_t len[REF_MAXSEG];
  uint8_t seg[REF_MAXSEG][REF_MAXSEGLEN];
};

#define REF_E_PCT (-1)      /* '%' not followed by two hex digits */
#define REF_E_CAPACITY (-2) /* more / longer segments than this reference stores (harness bug if seen) */

int ref_is_hex(uint8_t c);
/* Percent-decode exactly once.  Returns decoded length, REF_E_PCT on a malformed escape. */
int ref_pct_decode(const uint8_t *s, size_t n, uint8_t *out, size_t cap);
/* 0: ordinary segment, 1: "." , 2: ".."  -- written literally or with %2e / %2E; REF_E_PCT if malformed */
int ref_segment_dots(const uint8_t *s, size_t n);

/* RFC 3986 5.2.4 on a byte string (dot-segments must be written literally).  Returns the output length. */
size_t ref_remove_dot_segments(const uint8_t *in, size_t n, uint8_t *out, size_t cap);

/* RFC 7252 6.4 step 8 for an RFC 3986 path (empty or starting with '/'; must not contain '?' or '#'):
 * escaped dots normalised, dot-segments removed, remaining segments percent-decoded once. */
int ref_path_to_segments(const uint8_t *path, size_t n, struct ref_seglist *out);
/* RFC 7252 6.4 step 9 for a query component (without '?', must not contain '#'). */
int ref_query_to_segments(const uint8_t *query, size_t n, struct ref_seglist *out);

/* ---- RFC 7252 6.4 steps 5-9: the options of a request for a valid URI ------------------------------ */
#define REF_MAXOPT (2 * REF_MAXSEG + 2)
struct ref_opt {
  uint16_t num;
  size_t len;
  uint8_t val[REF_MAXSEGLEN];
};
struct ref_optlist {
  int n;
  struct ref_opt o[REF_MAXOPT];
};
/* host_is_destination: the host component literally names the request's destination IP address (then no
 * Uri-Host).  Returns 0, or REF_E_PCT / REF_E_CAPACITY. */
int ref_uri_to_options(const struct ref_uri *u, int host_is_destination, struct ref_optlist *out);

/* ---- RFC 7252 6.5 steps 6/7: composing ------------------------------------------------------------- */
/* "/" seg "/" seg ... ; a single "/" when there is no Uri-Path option.  Returns length (0 if cap too small). */
size_t ref_compose_path(const struct ref_seglist *l, uint8_t *out, size_t cap);
/* arg "&" arg ... (without the leading "?"); '&' inside an argument is escaped (6.5 step 7). */
size_t ref_compose_query(const struct ref_seglist *l, uint8_t *out, size_t cap);

/* 1 iff a and b are the same list when a single empty segment counts as no segment ([""] == []) */
int ref_seglist_equal_mod_empty(const struct ref_seglist *a, const struct ref_seglist *b);
int ref_seglist_equal(const struct ref_seglist *a, const struct ref_seglist *b);

/* Returns 0 when every built-in vector (RFC 3986 5.2.4 / 5.4, RFC 7252 6.3 and appendix B examples,
 * compose/decompose round trips) holds; otherwise the number of the first failing vector. */
int ref_uri_selftest(void);

#endif
