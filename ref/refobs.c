/* refobs -- see refobs.h.  Deliberately dumb: arrays, linear scans, memcmp. */
#include "refobs.h"
#include <string.h>

const char *
ro_cause_name(int cause) {
  switch (cause) {
  case RO_C_CANCEL:
    return "cancel";
  case RO_C_RST:
    return "rst";
  case RO_C_GIVEUP:
    return "giveup";
  case RO_C_ERROR:
    return "error";
  case RO_C_SESSION:
    return "close";
  case RO_C_DELETE:
    return "del";
  case RO_C_REREG:
    return "rereg";
  case RO_C_NOANSWER:
    return "noanswer";
  default:
    return "none";
  }
}

void
ro_init(refobs_t *o, int con_every, int never_con, int max_fail) {
  memset(o, 0, sizeof *o);
  o->con_every = con_every;
  o->never_con = never_con;
  o->max_fail = max_fail;
}

int
ro_serial_older(uint32_t a, uint32_t b) {
  a &= 0xFFFFFF;
  b &= 0xFFFFFF;
  if (a < b && b - a < (1u << 23))
    return 1;
  if (a > b && a - b > (1u << 23))
    return 1;
  return 0;
}

static int
tok_eq(const struct ro_tok *t, const uint8_t *tok, int tkl) {
  return t->tkl == tkl && (tkl == 0 || memcmp(t->tok, tok, (size_t)tkl) == 0);
}

struct ro_reg *
ro_find(refobs_t *o, int observer, int resource, int query) {
  for (int i = 0; i < o->nregs; i++) {
    struct ro_reg *r = &o->regs[i];
    if (r->used && r->observer == observer && r->resource == resource && r->query == query)
      return r;
  }
  return NULL;
}

static struct ro_reg *
reg_get(refobs_t *o, int observer, int resource, int query) {
  struct ro_reg *r = ro_find(o, observer, resource, query);
  if (r)
    return r;
  if (o->nregs >= RO_MAXREG)
    return NULL;
  r = &o->regs[o->nregs++];
  memset(r, 0, sizeof *r);
  r->used = 1;
  r->observer = observer;
  r->resource = resource;
  r->query = query;
  r->state = RO_NO;
  r->gen = -1;
  r->last_val = -1;
  return r;
}

struct ro_reg *
ro_find_token(refobs_t *o, int observer, const uint8_t *tok, int tkl, struct ro_tok **t) {
  /* newest generation first: a token used again names its latest use */
  for (int i = 0; i < o->nregs; i++) {
    struct ro_reg *r = &o->regs[i];
    if (!r->used || r->observer != observer)
      continue;
    for (int g = r->ntoks - 1; g >= 0; g--)
      if (tok_eq(&r->toks[g], tok, tkl)) {
        if (t)
          *t = &r->toks[g];
        return r;
      }
  }
  return NULL;
}

static int
tok_is_current(const struct ro_reg *r, const struct ro_tok *t) {
  return r->gen >= 0 && t->gen == r->gen && !t->retired;
}

static void
retire_current(struct ro_reg *r, int cause) {
  if (r->gen >= 0 && !r->toks[r->gen].retired) {
    r->toks[r->gen].retired = 1;
    r->toks[r->gen].cause = cause;
  }
}

static void
new_generation(struct ro_reg *r, const uint8_t *tok, int tkl) {
  if (r->ntoks >= RO_MAXTOK) { /* forget the oldest */
    memmove(&r->toks[0], &r->toks[1], sizeof r->toks[0] * (RO_MAXTOK - 1));
    r->ntoks--;
    for (int g = 0; g < r->ntoks; g++)
      r->toks[g].gen = g;
    for (int n = 0; n < r->nnotes; n++)
      r->notes[n].gen--;
    r->gen--;
  }
  struct ro_tok *t = &r->toks[r->ntoks];
  memset(t, 0, sizeof *t);
  t->tkl = tkl > 8 ? 8 : tkl;
  if (t->tkl)
    memcpy(t->tok, tok, (size_t)t->tkl);
  t->gen = r->ntoks;
  r->gen = r->ntoks;
  r->ntoks++;
}

void
ro_request_begin(refobs_t *o, int observer, int resource, int query, int action, const uint8_t *tok, int tkl) {
  o->in_req = 1;
  o->req_observer = observer;
  o->req_resource = resource;
  o->req_query = query;
  o->req_action = action;
  o->req_tkl = tkl > 8 ? 8 : tkl;
  if (o->req_tkl)
    memcpy(o->req_tok, tok, (size_t)o->req_tkl);
  o->req_answered = 0;
}

static int
registration_accepted(refobs_t *o, const struct ro_emit *e, struct ro_reg **reg_out) {
  struct ro_reg *r = reg_get(o, o->req_observer, o->req_resource, o->req_query);
  int v = RO_OK;
  if (!r)
    return RO_IGNORED;
  if (reg_out)
    *reg_out = r;
  int same = r->gen >= 0 && !r->toks[r->gen].retired && tok_eq(&r->toks[r->gen], o->req_tok, o->req_tkl);
  if (!same) {
    if (r->gen >= 0 && !r->toks[r->gen].retired) {
      if (r->state != RO_NO) {
        retire_current(r, RO_C_REREG);
        if (r->state == RO_YES)
          r->reregs++;
      } else
        retire_current(r, r->cause ? r->cause : RO_C_REREG);
    }
    new_generation(r, o->req_tok, o->req_tkl);
  }
  r->state = RO_YES;
  r->cause = RO_C_NONE;
  r->rst_older = 0;
  r->non_run = 0;
  r->fails = 0;
  if (r->have_obs && ro_serial_older(e->obs, r->last_obs))
    v = RO_V_REG_RESPONSE_OLDER;
  else {
    if (!r->have_obs || ro_serial_older(r->last_obs, e->obs))
      r->obs_from_reg = 1;
    r->last_obs = e->obs & 0xFFFFFF;
    r->have_obs = 1;
  }
  r->last_val = e->val;
  return v;
}

static void
registration_refused(refobs_t *o, struct ro_reg **reg_out) {
  struct ro_reg *r = ro_find(o, o->req_observer, o->req_resource, o->req_query);
  if (!r)
    r = reg_get(o, o->req_observer, o->req_resource, o->req_query);
  if (!r)
    return;
  if (reg_out)
    *reg_out = r;
  int same = r->gen >= 0 && !r->toks[r->gen].retired && tok_eq(&r->toks[r->gen], o->req_tok, o->req_tkl);
  if (!same) {
    if (r->gen >= 0 && !r->toks[r->gen].retired)
      retire_current(r, r->state != RO_NO ? RO_C_REREG : (r->cause ? r->cause : RO_C_REREG));
    new_generation(r, o->req_tok, o->req_tkl);
  }
  r->state = RO_NO;
  r->cause = RO_C_ERROR;
  r->rst_older = 0;
}

static void
cancel_processed(refobs_t *o, int answered, struct ro_reg **reg_out) {
  struct ro_reg *r = ro_find(o, o->req_observer, o->req_resource, o->req_query);
  if (!r || r->gen < 0)
    return;
  if (reg_out)
    *reg_out = r;
  int same = !r->toks[r->gen].retired && tok_eq(&r->toks[r->gen], o->req_tok, o->req_tkl);
  if (r->state == RO_NO)
    return;
  if (same && answered) {
    r->state = RO_NO;
    r->cause = RO_C_CANCEL;
    r->rst_older = 0;
  } else {
    /* a deregistration that names another token than the current one, or one the server did not answer:
     * RFC 7641 3.6 removes "the matching entry (if any)"; whether this entry matches is left open */
    r->state = RO_MAYBE;
    r->cause = RO_C_CANCEL;
  }
}

void
ro_request_end(refobs_t *o) {
  if (o->in_req && !o->req_answered) {
    if (o->req_action == 0) {
      struct ro_reg *r = reg_get(o, o->req_observer, o->req_resource, o->req_query);
      if (r) {
        int same = r->gen >= 0 && !r->toks[r->gen].retired && tok_eq(&r->toks[r->gen], o->req_tok, o->req_tkl);
        if (!same) {
          if (r->gen >= 0 && !r->toks[r->gen].retired)
            retire_current(r, r->state != RO_NO ? RO_C_REREG : (r->cause ? r->cause : RO_C_REREG));
          new_generation(r, o->req_tok, o->req_tkl);
        }
        if (!(same && r->state == RO_YES)) {
          r->state = RO_MAYBE;
          r->cause = RO_C_NOANSWER;
        }
      }
    } else if (o->req_action == 1)
      cancel_processed(o, 0, NULL);
  }
  o->in_req = 0;
}

static struct ro_note *
note_find(struct ro_reg *r, int mid, int gen) {
  for (int n = r->nnotes - 1; n >= 0; n--)
    if (r->notes[n].mid == mid && (gen < 0 || r->notes[n].gen == gen))
      return &r->notes[n];
  return NULL;
}

static struct ro_note *
note_add(struct ro_reg *r, const struct ro_emit *e, int gen) {
  if (r->nnotes >= RO_MAXNOTE) {
    memmove(&r->notes[0], &r->notes[1], sizeof r->notes[0] * (RO_MAXNOTE - 1));
    r->nnotes--;
  }
  struct ro_note *n = &r->notes[r->nnotes++];
  memset(n, 0, sizeof *n);
  n->mid = e->mid;
  n->gen = gen;
  n->type = e->type;
  n->obs = e->obs & 0xFFFFFF;
  n->ntx = 1;
  n->val = e->val;
  return n;
}

int
ro_emit(refobs_t *o, const struct ro_emit *e, struct ro_reg **reg_out) {
  if (reg_out)
    *reg_out = NULL;
  if (e->code < 64)
    return RO_IGNORED; /* empty message or request */
  int cls = e->code >> 5;

  /* the piggybacked answer to the request the server is processing right now */
  if (o->in_req && !o->req_answered && e->type == 2 && e->observer == o->req_observer && e->tkl == o->req_tkl &&
      (e->tkl == 0 || memcmp(e->tok, o->req_tok, (size_t)e->tkl) == 0)) {
    o->req_answered = 1;
    if (o->req_action == 0) {
      if (cls == 2 && e->has_obs)
        return registration_accepted(o, e, reg_out);
      registration_refused(o, reg_out);
      return RO_IGNORED;
    }
    if (o->req_action == 1) {
      cancel_processed(o, 1, reg_out);
      return RO_IGNORED;
    }
    return RO_IGNORED;
  }

  struct ro_tok *t = NULL;
  struct ro_reg *r = ro_find_token(o, e->observer, e->tok, e->tkl, &t);
  if (!r)
    return e->has_obs ? RO_V_UNKNOWN_TOKEN : RO_IGNORED;
  if (reg_out)
    *reg_out = r;

  if (!e->has_obs) {
    /* RFC 7641 4.2: a non-2.xx notification carries no Observe option and removes the entry */
    if (cls > 2 && e->type != 2 && tok_is_current(r, t) && r->state != RO_NO) {
      r->state = RO_NO;
      r->cause = RO_C_ERROR;
      r->rst_older = 0;
    }
    return RO_IGNORED;
  }
  if (e->type == 2)
    return RO_IGNORED; /* a piggybacked response to some other request of this observer (duplicate request copy) */

  struct ro_note *n = note_find(r, e->mid, t->gen);
  o->v_cause = RO_C_NONE;
  o->v_rst_older = 0;
  if (n) { /* retransmission of a notification already seen */
    n->ntx++;
    if (t->retired || !tok_is_current(r, t)) {
      o->v_cause = t->cause;
      return RO_V_RETX_AFTER_DEREG;
    }
    if (r->state == RO_NO) {
      o->v_cause = r->cause;
      o->v_rst_older = r->rst_older;
      return RO_V_RETX_AFTER_DEREG;
    }
    return RO_OK;
  }

  if (t->retired || !tok_is_current(r, t)) {
    note_add(r, e, t->gen);
    o->v_cause = t->cause;
    return t->cause == RO_C_REREG ? RO_V_OLD_TOKEN : RO_V_AFTER_DEREG;
  }
  if (r->state == RO_NO) {
    note_add(r, e, t->gen);
    o->v_cause = r->cause;
    o->v_rst_older = r->rst_older;
    return RO_V_AFTER_DEREG;
  }

  int v = RO_OK;
  if (r->have_obs && !ro_serial_older(r->last_obs, e->obs)) {
    v = (e->obs & 0xFFFFFF) == r->last_obs && r->obs_from_reg ? RO_V_EQUALS_REG_RESPONSE : RO_V_NOT_INCREASING;
    r->obs_from_reg = 0;
  } else {
    r->last_obs = e->obs & 0xFFFFFF;
    r->have_obs = 1;
    r->obs_from_reg = 0;
  }
  if (e->type == 1) {
    r->non_run++;
    if (o->con_every == 1) {
      if (v == RO_OK)
        v = RO_V_NON_IN_CON_MODE;
    } else if (o->con_every > 1 && r->non_run >= o->con_every) {
      if (v == RO_OK)
        v = RO_V_NO_CON;
      r->non_run = 0;
    }
  } else {
    r->non_run = 0;
    if (o->never_con && v == RO_OK)
      v = RO_V_CON_IN_NON_MODE;
  }
  note_add(r, e, t->gen);
  r->total_new++;
  r->last_val = e->val;
  return v;
}

void
ro_ack_delivered(refobs_t *o, int observer, int mid) {
  for (int i = 0; i < o->nregs; i++) {
    struct ro_reg *r = &o->regs[i];
    if (!r->used || r->observer != observer)
      continue;
    struct ro_note *n = note_find(r, mid, -1);
    if (n && n->type == 0) {
      n->acked = 1;
      if (n->gen == r->gen)
        r->fails = 0;
    }
  }
}

struct ro_reg *
ro_rst_delivered(refobs_t *o, int observer, int mid) {
  for (int i = 0; i < o->nregs; i++) {
    struct ro_reg *r = &o->regs[i];
    if (!r->used || r->observer != observer || r->gen < 0)
      continue;
    struct ro_note *n = note_find(r, mid, r->gen);
    if (!n || r->toks[r->gen].retired || r->state == RO_NO)
      continue;
    /* newest notification sent with the current token */
    struct ro_note *newest = NULL;
    for (int k = r->nnotes - 1; k >= 0 && !newest; k--)
      if (r->notes[k].gen == r->gen)
        newest = &r->notes[k];
    r->state = RO_NO;
    r->cause = RO_C_RST;
    r->rst_older = newest != n;
    return r;
  }
  return NULL;
}

struct ro_reg *
ro_con_timed_out(refobs_t *o, int observer, const uint8_t *tok, int tkl) {
  struct ro_tok *t = NULL;
  struct ro_reg *r = ro_find_token(o, observer, tok, tkl, &t);
  if (!r || !tok_is_current(r, t) || r->state == RO_NO)
    return NULL;
  r->fails++;
  if (r->fails >= o->max_fail) {
    r->state = RO_NO;
    r->cause = RO_C_GIVEUP;
    r->rst_older = 0;
  }
  return r;
}

void
ro_session_dropped(refobs_t *o, int observer) {
  for (int i = 0; i < o->nregs; i++) {
    struct ro_reg *r = &o->regs[i];
    if (r->used && r->observer == observer && r->state != RO_NO) {
      r->state = RO_NO;
      r->cause = RO_C_SESSION;
      r->rst_older = 0;
    }
  }
}

void
ro_resource_deleted(refobs_t *o, int resource) {
  for (int i = 0; i < o->nregs; i++) {
    struct ro_reg *r = &o->regs[i];
    if (r->used && r->resource == resource && r->state != RO_NO) {
      r->state = RO_NO;
      r->cause = RO_C_DELETE;
      r->rst_older = 0;
    }
  }
}

void
ro_mark(refobs_t *o) {
  for (int i = 0; i < o->nregs; i++) {
    o->regs[i].mark_new = o->regs[i].total_new;
    o->regs[i].state_at_mark = o->regs[i].state;
  }
}
