/* refmsg -- list model of a CoAP message + reference wire encoder / decoder (DESIGN.md 2.5).
 *
 * Written from RFC 7252 section 3 (datagram format, option delta/length encoding), RFC 8323
 * sections 3.2 / 4.2 (TCP/TLS length-prefixed framing, WebSocket framing with Len = 0) and
 * RFC 8974 section 2.1 (extended token length).  No libcoap headers, no libcoap code.
 *
 * The model is deliberately the dumbest correct thing: a token byte string, an array of
 * (number, value) kept stable-sorted by number, and a payload byte string.
 */
#ifndef REFMSG_H
#define REFMSG_H
#include <stddef.h>
#include <stdint.h>

#define RM_MAX_OPTS 32
#define RM_MAX_TOKEN 65804u /* 13 + 256 + 65535, RFC 8974 */

enum rm_framing { RM_UDP = 0, RM_TCP = 1, RM_WS = 2 };

typedef struct {
  uint32_t num; /* option number 0..65535 */
  uint32_t len; /* value length */
  uint8_t *val; /* owned copy; NULL iff len == 0 */
} rm_opt_t;

typedef struct {
  uint8_t type;  /* 0..3 (CON, NON, ACK, RST); not carried by RM_TCP / RM_WS */
  uint8_t code;  /* class.detail byte */
  uint16_t mid;  /* not carried by RM_TCP / RM_WS */
  size_t tok_len;
  uint8_t *tok;  /* owned; NULL iff tok_len == 0 */
  int nopts;
  rm_opt_t opt[RM_MAX_OPTS]; /* ascending number, insertion order among equal numbers */
  size_t pay_len; /* 0 = no payload (and no payload marker) */
  uint8_t *pay;   /* owned; NULL iff pay_len == 0 */
} rm_msg_t;

/* ---- life cycle ---- */
void rm_init(rm_msg_t *m, unsigned type, unsigned code, unsigned mid);
void rm_clear(rm_msg_t *m);                      /* frees everything, leaves an initialised empty message */
void rm_copy(rm_msg_t *dst, const rm_msg_t *src); /* dst must be uninitialised or cleared */

/* ---- edit semantics ---- */
void rm_set_token(rm_msg_t *m, const uint8_t *p, size_t len);   /* "retoken" */
void rm_set_payload(rm_msg_t *m, const uint8_t *p, size_t len); /* len 0 removes the payload */
/* insert after the last option whose number is <= num (stable); returns the index, -1 if the table is full */
int rm_insert(rm_msg_t *m, uint32_t num, const uint8_t *p, size_t len);
/* replace the value of the FIRST option with this number; returns its index, -1 if there is none */
int rm_update(rm_msg_t *m, uint32_t num, const uint8_t *p, size_t len);
/* remove the FIRST option with this number; returns the index it had, -1 if there is none */
int rm_remove(rm_msg_t *m, uint32_t num);
int rm_find(const rm_msg_t *m, uint32_t num);  /* index of first instance or -1 */
int rm_count(const rm_msg_t *m, uint32_t num); /* number of instances */
uint32_t rm_last_num(const rm_msg_t *m);       /* number of the last option, 0 if none */

/* ---- sizes on the wire ---- */
size_t rm_tok_wire_len(size_t tok_len);                  /* token bytes + 0/1/2 extended-TKL bytes */
size_t rm_opt_hdr_len(uint32_t delta, uint32_t len);     /* 1 + delta extension + length extension */
size_t rm_opt_wire_len(uint32_t delta, uint32_t len);    /* header + value */
size_t rm_opts_wire_len(const rm_msg_t *m);              /* all options */
size_t rm_rest_len(const rm_msg_t *m);                   /* options + marker + payload (RFC 8323 "Len") */
size_t rm_body_len(const rm_msg_t *m);                   /* extended token field + rm_rest_len */
size_t rm_hdr_len(const rm_msg_t *m, enum rm_framing f); /* bytes before the (extended) token field */
size_t rm_wire_len(const rm_msg_t *m, enum rm_framing f);

/* ---- reference encoder: returns number of bytes written, 0 if not encodable / cap too small ---- */
size_t rm_encode(const rm_msg_t *m, enum rm_framing f, uint8_t *out, size_t cap);
/* body only (extended token field, options, marker, payload) -- what follows the fixed header */
size_t rm_encode_body(const rm_msg_t *m, uint8_t *out, size_t cap);

/* ---- reference decoder: 1 = well-formed (out filled, caller rm_clear()s it), 0 = rejected (why set) ---- */
int rm_decode(enum rm_framing f, const uint8_t *b, size_t len, rm_msg_t *out, const char **why);

/* ---- comparison ---- */
/* returns NULL when equal, else a short stable name of the first differing field:
 * "type" "code" "mid" "token-len" "token" "opt-count" "opt-number" "opt-len" "opt-value" "payload-len" "payload".
 * *opt_idx (may be NULL) receives the index of the differing option or -1.
 * type/mid are only compared when cmp_type_mid is non-zero (they are not on the wire for TCP/WS). */
const char *rm_diff(const rm_msg_t *a, const rm_msg_t *b, int cmp_type_mid, int *opt_idx);

/* ---- classes used in failure signatures ---- */
const char *rm_class(uint32_t v);                 /* "0-12" | "13-268" | "269+" */
const char *rm_len_form(size_t rest_len);         /* RFC 8323 Len form: "len0-12" | "len8" | "len16" | "len32" */
const char *rm_tkl_form(size_t tok_len);          /* "tkl0-12" | "tkl13" | "tkl14" */
const char *rm_framing_name(enum rm_framing f);   /* "udp" | "tcp" | "ws" */
/* names the element of the reference encoding of m that contains byte `off`:
 * "hdr" | "token" | "opt-delta-<class>" | "opt-len-<class>" | "opt-value-<len class>" | "marker" | "payload" | "beyond-end";
 * for an option element *opt_idx receives the option index */
const char *rm_locate(const rm_msg_t *m, enum rm_framing f, size_t off, int *opt_idx);
/* class string "delta-<class>/len-<class>" of option i of m (static rotating buffers) */
const char *rm_opt_class(const rm_msg_t *m, int i);

/* ---- option tables, from the RFC option registries (not from libcoap) ---- */
/* legal value length range of `num` in a message with code `code` (base options: RFC 7252 5.10, 7641, 7959,
 * 8613, 8768, 9175, 9177, 7967; signalling codes 7.xx: RFC 8323 5.x, RFC 8974).  Unknown numbers: 0..65535+. */
void rm_opt_len_range(unsigned code, uint32_t num, uint32_t *min, uint32_t *max);
int rm_opt_len_legal(unsigned code, uint32_t num, uint32_t len);
/* 1 repeatable, 0 defined as not repeatable, -1 not defined (base option table) */
int rm_opt_repeatable(uint32_t num);

#endif
