/* refsrv -- see refsrv.h.  Deliberately dumb: linear scans, no state. */
#include "refsrv.h"
#include <stdio.h>
#include <string.h>

static const char *const rule_names[RS_R__COUNT] = {
    "invalid-code-class", "empty-ping", "empty-non", "ack-or-rst-typed", "ext-token", "mcast-con", "bad-option", "oscore-on-proxy-request",
    "proxy-unsupported", "proxy-scheme-without-uri-host", "hop-limit", "not-found", "if-none-match", "no-method-handler",
    "fetch-no-content-format", "mcast-unsupported", "handler"};

const char *
rs_rule_name(int rule) {
  return rule >= 0 && rule < RS_R__COUNT ? rule_names[rule] : "?";
}

void
rs_code_str(int code, char out[8]) {
  snprintf(out, 8, "%d.%02d", RS_CLASS(code), code & 31);
}

const struct rs_opt *
rs_find(const struct rs_req *q, uint32_t num) {
  for (int i = 0; i < q->nopt; i++)
    if (q->opt[i].num == num)
      return &q->opt[i];
  return NULL;
}

uint32_t
rs_uint(const struct rs_opt *o) {
  uint32_t v = 0;
  for (size_t i = 0; i < o->len && i < 4; i++)
    v = v << 8 | o->val[i];
  return v;
}

/* RFC 7252 table 4 (column R) + RFC 7641/7959/8768/7967: only these may occur more than once */
int
rs_is_repeatable(uint32_t num) {
  switch (num) {
  case RS_O_IF_MATCH:
  case RS_O_ETAG:
  case RS_O_LOCATION_PATH:
  case RS_O_URI_PATH:
  case RS_O_URI_QUERY:
  case RS_O_LOCATION_QUERY:
    return 1;
  case 292: /* Request-Tag, RFC 9175 3.2: repeatable */
    return 1;
  case 252: /* Echo, RFC 9175 2.2.1: not repeatable */
    return 0;
  default:
    /* an option the server does not know cannot be "illegally" repeated: its definition is unknown */
    return num > RS_O_SIZE1 && num != RS_O_NO_RESPONSE;
  }
}

/* critical (odd) options of RFC 7252 / RFC 7959 a plain CoAP server understands */
int
rs_is_recognised_critical(uint32_t num) {
  switch (num) {
  case RS_O_IF_MATCH:
  case RS_O_URI_HOST:
  case RS_O_IF_NONE_MATCH:
  case RS_O_URI_PORT:
  case RS_O_URI_PATH:
  case RS_O_URI_QUERY:
  case RS_O_ACCEPT:
  case RS_O_BLOCK2:
  case RS_O_BLOCK1:
  case RS_O_PROXY_URI:
  case RS_O_PROXY_SCHEME:
    return 1;
  default:
    return 0;
  }
}

static int
has_method(const struct rs_res *r, int code) {
  return code >= 1 && code <= 7 && ((r->methods >> (code - 1)) & 1);
}

/* behaviour -> code the handler sets */
static int
behaviour_code(int b) {
  switch (b) {
  case RS_B_CONTENT:
  case RS_B_CONTENT_EMPTY:
    return RS_CODE(2, 5);
  case RS_B_NOCODE:
    return 0;
  case RS_B_404:
    return RS_CODE(4, 4);
  case RS_B_500:
    return RS_CODE(5, 0);
  default:
    return RS_CODE(1, 0);
  }
}

/* Last stage: No-Response (RFC 7967) and multicast (RFC 7252 8, coap_resource(3)) decide whether the
 * response produced so far is put on the wire.  `res` is the resource the response belongs to (NULL for
 * responses produced before a resource was chosen). */
static void
suppress(const struct rs_table *t, const struct rs_req *q, const struct rs_decision *d, const struct rs_res *res,
         int payload_empty, struct rs_outcome *o) {
  int con = q->type == RS_T_CON;
  int withheld = RS_S_NO;
  if (o->code == 0) {
    /* handler set nothing: Empty ACK stops the retransmissions of a CON, a NON gets nothing */
    o->kind = con ? RS_K_EMPTY_ACK : RS_K_NONE;
    o->suppress = RS_S_CODE0;
    return;
  }
  int cls = RS_CLASS(o->code);
  if (d->has_noresponse) {
    /* bit 1 (2): 2.xx, bit 3 (8): 4.xx, bit 4 (16): 5.xx.  Present and class not named: the client asked
     * for that class explicitly, it is sent -- for multicast requests too (RFC 7967 2.1, 3). */
    unsigned bit = 1u << (cls - 1);
    if (d->noresponse & bit)
      withheld = RS_S_NORESPONSE;
  } else if (q->mcast) {
    if (t->mcast_per_resource && res) {
      if ((res->mc & RS_MC_SUPP_2XX) && cls == 2)
        withheld = RS_S_MCAST;
      else if ((res->mc & RS_MC_SUPP_205) && o->code == RS_CODE(2, 5) && payload_empty)
        withheld = RS_S_MCAST;
      else if (cls == 4 && !(res->mc & RS_MC_SEND_4XX))
        withheld = RS_S_MCAST;
      else if (cls == 5 && !(res->mc & RS_MC_SEND_5XX))
        withheld = RS_S_MCAST;
    } else if (cls > 2) {
      /* default: errors are not sent to multicast requesters */
      withheld = RS_S_MCAST;
    }
  }
  o->suppress = withheld;
  if (withheld)
    o->kind = con ? RS_K_EMPTY_ACK : RS_K_NONE;
  else
    o->kind = RS_K_RESPONSE;
}

int
rs_final_kind(const struct rs_table *t, const struct rs_req *q, const struct rs_res *res, int payload_empty, int code) {
  struct rs_decision d;
  struct rs_outcome o;
  memset(&d, 0, sizeof d);
  memset(&o, 0, sizeof o);
  const struct rs_opt *nr = rs_find(q, RS_O_NO_RESPONSE);
  if (nr) {
    d.has_noresponse = 1;
    d.noresponse = rs_uint(nr);
  }
  o.code = code;
  suppress(t, q, &d, res, payload_empty, &o);
  return o.kind;
}

static struct rs_outcome *
add(struct rs_decision *d, int rule) {
  struct rs_outcome *o = &d->out[d->n < RS_MAXOUT ? d->n++ : RS_MAXOUT - 1];
  memset(o, 0, sizeof *o);
  o->rule = rule;
  o->handler = RS_H_NONE;
  return o;
}

/* minimal absolute-URI split for Proxy-Uri: scheme "://" host [":" port] ["/" seg *("/" seg)] ["?" ...] */
static int
split_proxy_uri(const uint8_t *s, size_t n, const uint8_t **host, size_t *hostlen, struct rs_decision *d) {
  size_t i = 0;
  while (i + 2 < n && !(s[i] == ':' && s[i + 1] == '/' && s[i + 2] == '/'))
    i++;
  if (i + 2 >= n)
    return 0;
  i += 3;
  *host = s + i;
  size_t h = i;
  while (h < n && s[h] != '/' && s[h] != ':' && s[h] != '?')
    h++;
  *hostlen = h - i;
  while (h < n && s[h] != '/' && s[h] != '?')
    h++;
  d->nseg = 0;
  while (h < n && s[h] == '/') {
    size_t b = ++h;
    while (h < n && s[h] != '/' && s[h] != '?')
      h++;
    if (d->nseg < RS_MAXSEG + 2) {
      d->seg[d->nseg].s = s + b;
      d->seg[d->nseg].len = h - b;
      d->nseg++;
    }
  }
  return 1;
}

static int
seg_eq(const struct rs_decision *d, int i, const char *s) {
  size_t l = strlen(s);
  return d->seg[i].len == l && (l == 0 || !memcmp(d->seg[i].s, s, l));
}

void
rs_decide(const struct rs_table *t, const struct rs_req *q, struct rs_decision *d) {
  memset(d, 0, sizeof *d);
  int cls = RS_CLASS(q->code);
  int con = q->type == RS_T_CON;
  struct rs_outcome *o;

  const struct rs_opt *nr = rs_find(q, RS_O_NO_RESPONSE);
  if (nr) {
    d->has_noresponse = 1;
    d->noresponse = rs_uint(nr);
  }
  /* the path the request names: the Uri-Path options (refined below when Proxy-Uri takes precedence) */
  for (int i = 0; i < q->nopt; i++)
    if (q->opt[i].num == RS_O_URI_PATH && d->nseg < RS_MAXSEG + 2) {
      d->seg[d->nseg].s = q->opt[i].val;
      d->seg[d->nseg].len = q->opt[i].len;
      d->nseg++;
    }

  /* ---- tier 0: is this a request datagram at all? ------------------------------------------------ */
  if (cls == 1 || cls == 6 || cls == 7) {
    /* "invalid code classes are Reset or ignored" (7.xx is signalling, defined for reliable transports only) */
    o = add(d, RS_R_INVALID_CLASS);
    if (q->type == RS_T_CON) {
      o->kind = RS_K_RST;
      o->alt_kinds = 1 << RS_K_NONE;
    } else if (q->type == RS_T_NON) {
      o->kind = RS_K_NONE;
      o->alt_kinds = q->mcast ? 0 : 1 << RS_K_RST; /* RFC 7252 8.1: never Reset a multicast NON */
    } else {
      /* RFC 7252 4.2 says never to answer ACK / RST with ACK / RST, but the statement allows "Reset or ignored"
       * for every invalid code class and fixes nothing more for ACK / RST typed datagrams */
      o->kind = RS_K_NONE;
      o->alt_kinds = 1 << RS_K_RST;
    }
    return;
  }
  if (cls >= 2) {
    /* a response: not a request datagram, outside this table (C07) */
    o = add(d, RS_R_NOT_REQUEST_TYPE);
    o->unspecified = 1;
    o->handler_free = 0;
    o->kind = RS_K_NONE;
    return;
  }
  if (q->type == RS_T_ACK || q->type == RS_T_RST) {
    o = add(d, RS_R_NOT_REQUEST_TYPE);
    o->kind = RS_K_NONE;
    return;
  }
  if (q->code == 0) {
    if (con) {
      /* CoAP ping (RFC 7252 4.3): an Empty CON is rejected with a matching Reset */
      o = add(d, RS_R_EMPTY_PING);
      o->kind = q->mcast ? RS_K_NONE : RS_K_RST;
      o->alt_kinds = q->mcast ? 1 << RS_K_RST : 0;
    } else {
      /* a NON must not be Empty: reject = Reset or silence */
      o = add(d, RS_R_EMPTY_OTHER);
      o->kind = RS_K_NONE;
      o->alt_kinds = q->mcast ? 0 : 1 << RS_K_RST;
    }
    return;
  }
  if (q->tkl > 8) {
    /* RFC 8974 token on a server limited to RFC 7252 tokens: the statement does not say (RST, 4.00 or silence) */
    o = add(d, RS_R_EXT_TOKEN);
    o->unspecified = 1;
    o->kind = con ? RS_K_RST : RS_K_NONE;
    return;
  }
  if (q->mcast && con) {
    /* a client must not send this (RFC 7252 8.1); nothing is prescribed for the server */
    o = add(d, RS_R_MCAST_CON);
    o->unspecified = 1;
    o->handler_free = 1;
    o->kind = RS_K_NONE;
    return;
  }

  /* ---- tier 1: options (RFC 7252 5.4.1, 5.4.5; statement: 4.02, Reset for NON) --------------------- */
  const struct rs_opt *pu = rs_find(q, RS_O_PROXY_URI);
  const struct rs_opt *ps = rs_find(q, RS_O_PROXY_SCHEME);
  const struct rs_opt *uh = rs_find(q, RS_O_URI_HOST);
  int proxy_req = pu || ps;
  int may_forward = proxy_req && t->has_proxy;
  int bad = 0, crit_safe_pending = 0, oscore_proxy = 0;
  uint32_t echo[4];
  int necho = 0;
  for (int i = 0; i < q->nopt; i++) {
    uint32_t n = q->opt[i].num;
    if ((n & 1) && !rs_is_recognised_critical(n)) {
      int safe_to_forward = !(n & 2);
      if (n == RS_O_OSCORE && may_forward) {
        oscore_proxy = 1;
      } else if (safe_to_forward && may_forward) {
        /* RFC 7252 5.4.2 / 5.7.2: a proxy forwards Safe-to-Forward options it does not recognise */
        crit_safe_pending = 1;
      } else {
        bad = 1;
        int k;
        for (k = 0; k < necho; k++)
          if (echo[k] == n)
            break;
        /* the value of an OSCORE option (RFC 8613) is not reflected */
        if (k == necho && necho < 4 && n != RS_O_OSCORE)
          echo[necho++] = n;
      }
    }
    if (i > 0 && q->opt[i - 1].num == n && !rs_is_repeatable(n))
      bad = 1;
  }
  if (bad) {
    o = add(d, RS_R_BAD_OPTION);
    if (con) {
      o->code = RS_CODE(4, 2);
      o->kind = RS_K_RESPONSE;
      o->necho = necho;
      memcpy(o->echo, echo, sizeof echo);
      /* the statement does not say whether No-Response applies to 4.02: both are accepted */
      if (d->has_noresponse && (d->noresponse & 8))
        o->alt_kinds = 1 << RS_K_EMPTY_ACK;
    } else {
      o->kind = q->mcast ? RS_K_NONE : RS_K_RST; /* RFC 7252 8.1: MUST NOT Reset a multicast NON */
    }
    return;
  }

  if (oscore_proxy) {
    /* option 9 is the OSCORE option: a server that can proxy treats the message as OSCORE-protected (RFC 8613 8,
     * checked by C14); the statement of C10 says nothing about it */
    o = add(d, RS_R_OSCORE_PROXY);
    o->unspecified = 1;
    o->handler_free = 1;
    o->kind = RS_K_NONE;
    return;
  }

  /* ---- tier 2: proxy options, Hop-Limit ------------------------------------------------------------ */
  const uint8_t *host = NULL;
  size_t hostlen = 0;
  int to_self = 0, forward = 0;
  if (proxy_req && !t->has_proxy) {
    /* RFC 7252 5.10.2: "An endpoint receiving a request with a Proxy-Uri [Proxy-Scheme] Option that is unable or
     * unwilling to act as a forward-proxy for the request MUST cause the return of a 5.05"; statement: "proxy options
     * without proxy support 5.05".  Proxy-Scheme without Uri-Host is given its own rule name (own signature). */
    o = add(d, ps && !uh ? RS_R_PROXY_SCHEME_NO_HOST : RS_R_PROXY_UNSUPPORTED);
    o->code = RS_CODE(5, 5);
  } else if (proxy_req) {
    if ((pu && ps) || (ps && !uh)) {
      /* Proxy-Scheme without Uri-Host (host = literal destination address), or both proxy options: the
       * statement does not say what a proxy makes of it */
      o = add(d, RS_R_PROXY_SCHEME_NO_HOST);
      o->unspecified = 1;
      o->handler_free = 1;
      o->kind = RS_K_NONE;
      return;
    }
    if (pu) {
      if (!split_proxy_uri(pu->val, pu->len, &host, &hostlen, d)) {
        o = add(d, RS_R_PROXY_UNSUPPORTED);
        o->code = RS_CODE(5, 5);
      }
    } else {
      host = uh->val;
      hostlen = uh->len;
    }
    if (d->n == 0) {
      for (int i = 0; i < t->nproxy_names; i++)
        if (strlen(t->proxy_names[i]) == hostlen && !memcmp(t->proxy_names[i], host, hostlen))
          to_self = 1;
      forward = !to_self;
      d->proxy_forward = forward;
      d->proxy_to_self = to_self;
      if (to_self && crit_safe_pending) {
        /* the proxy is the origin server for this request: RFC 7252 5.4.1 applies to it */
        o = add(d, RS_R_BAD_OPTION);
        o->code = RS_CODE(4, 2);
        suppress(t, q, d, NULL, 0, o);
        if (o->kind != RS_K_RESPONSE)
          o->alt_kinds = 1 << RS_K_RESPONSE;
        else if (d->has_noresponse && (d->noresponse & 8))
          o->alt_kinds = 1 << RS_K_EMPTY_ACK;
        return;
      }
    }
  }
  const struct rs_opt *hl = rs_find(q, RS_O_HOP_LIMIT);
  int hop_code = 0;
  if (hl) {
    if (hl->len != 1 || hl->val[0] == 0)
      hop_code = RS_CODE(4, 0); /* RFC 8768 3: value 0 (or not a 1-byte uint) is rejected with 4.00 */
    else if (hl->val[0] == 1)
      hop_code = RS_CODE(5, 8); /* statement: Hop-Limit exhaustion 5.08 */
  }
  if (hop_code) {
    o = add(d, RS_R_HOP_LIMIT);
    o->code = hop_code;
  }
  if (d->n) {
    for (int i = 0; i < d->n; i++)
      suppress(t, q, d, NULL, 0, &d->out[i]);
    /* a proxy request that names the proxy itself is served locally and not forwarded: whether the Hop-Limit
     * still counts is not said -- the resource tier outcomes below are accepted as well */
    if (!(to_self && d->n == 1 && d->out[0].rule == RS_R_HOP_LIMIT))
      return;
  }

  /* ---- tier 3: resource ------------------------------------------------------------------------------ */
  /* one empty Uri-Path option and no Uri-Path option name the same URI (RFC 7252 6.5) */
  if (d->nseg == 1 && d->seg[0].len == 0)
    d->nseg = 0;
  const struct rs_res *target = NULL;
  struct rs_res wkc;
  int hid = RS_H_NONE;
  if (forward) {
    target = &t->proxy;
    hid = RS_H_PROXY;
  } else {
    for (int r = 0; r < t->nres && !target; r++) {
      if (t->res[r].nseg != d->nseg)
        continue;
      int s;
      for (s = 0; s < d->nseg; s++)
        if (!seg_eq(d, s, t->res[r].seg[s]))
          break;
      if (s == d->nseg) {
        target = &t->res[r];
        hid = r;
      }
    }
    int is_wkc = d->nseg == 2 && seg_eq(d, 0, ".well-known") && seg_eq(d, 1, "core");
    if (!target && t->has_unknown && t->unknown_takes_wkc && has_method(&t->unknown, q->code)) {
      target = &t->unknown;
      hid = RS_H_UNKNOWN;
    }
    if (!target && is_wkc && t->builtin_wkc) {
      memset(&wkc, 0, sizeof wkc);
      wkc.methods = 1; /* GET */
      wkc.mc = RS_MC_SUPPORT;
      wkc.behaviour = RS_B_CONTENT;
      target = &wkc;
      hid = RS_H_WKC;
    }
    if (!target && t->has_unknown && has_method(&t->unknown, q->code)) {
      target = &t->unknown;
      hid = RS_H_UNKNOWN;
    }
  }
  int exists = target && hid != RS_H_UNKNOWN && hid != RS_H_PROXY; /* the named resource exists on this server */
  int unassigned = !(q->code >= 1 && q->code <= 7);
  int fetch_no_cf = q->code == 5 && !rs_find(q, RS_O_CONTENT_FORMAT);
  int first = d->n;

  if (!target) {
    o = add(d, RS_R_NOT_FOUND);
    o->code = q->code == 4 ? RS_CODE(2, 2) : RS_CODE(4, 4);
    suppress(t, q, d, NULL, 0, o);
    /* "unless an unknown-resource handler exists": one that lacks the method, or an unassigned method code
     * (RFC 7252 5.8: MUST 4.05), make 4.05 just as good; the statement gives no order */
    if (t->has_unknown || unassigned) {
      o = add(d, RS_R_NO_METHOD);
      o->code = RS_CODE(4, 5);
      suppress(t, q, d, t->has_unknown ? &t->unknown : NULL, 0, o);
    }
    if (fetch_no_cf) {
      o = add(d, RS_R_FETCH_NO_CF);
      o->code = RS_CODE(4, 15);
      suppress(t, q, d, NULL, 0, o);
    }
  } else {
    if (exists && rs_find(q, RS_O_IF_NONE_MATCH)) {
      o = add(d, RS_R_PRECONDITION);
      o->code = RS_CODE(4, 12);
      suppress(t, q, d, target, 0, o);
    }
    if (!has_method(target, q->code)) {
      o = add(d, RS_R_NO_METHOD);
      o->code = RS_CODE(4, 5);
      suppress(t, q, d, target, 0, o);
    }
    if (fetch_no_cf) {
      o = add(d, RS_R_FETCH_NO_CF);
      o->code = RS_CODE(4, 15);
      suppress(t, q, d, target, 0, o);
    }
    if (q->mcast && t->mcast_per_resource && !(target->mc & RS_MC_SUPPORT)) {
      o = add(d, RS_R_MCAST_UNSUPPORTED);
      o->code = RS_CODE(4, 5);
      suppress(t, q, d, target, 0, o);
    }
  }
  if (d->n > first)
    return;

  /* ---- otherwise: exactly the registered handler runs once ------------------------------------------- */
  o = add(d, RS_R_HANDLER);
  o->handler = hid;
  o->code = behaviour_code(target->behaviour);
  o->payload_cmp = hid != RS_H_WKC && (target->behaviour == RS_B_CONTENT || target->behaviour == RS_B_CONTENT_EMPTY);
  o->separate_ok = hid == RS_H_PROXY && con;
  if (target->behaviour == RS_B_INVALID) {
    /* an invalid code cannot be "what is sent"; nothing is said about what is */
    o->unspecified = 1;
    o->kind = RS_K_NONE;
  } else {
    suppress(t, q, d, target, target->behaviour == RS_B_CONTENT_EMPTY, o);
  }
}

/* ---------------------------------------------------------------------------------------------------- */
/* self-test: hand-derived rows of the statement                                                          */
static int st_fail;
static void
expect(const char *what, const struct rs_decision *d, int rule, int kind, int code, int handler) {
  const struct rs_outcome *o = &d->out[0];
  if (d->n < 1 || o->rule != rule || o->kind != kind || o->code != code || o->handler != handler) {
    char c1[8], c2[8];
    rs_code_str(o->code, c1);
    rs_code_str(code, c2);
    fprintf(stderr, "refsrv selftest: %s: got rule=%s kind=%d code=%s handler=%d, want rule=%s kind=%d code=%s handler=%d\n", what,
            rs_rule_name(o->rule), o->kind, c1, o->handler, rs_rule_name(rule), kind, c2, handler);
    st_fail++;
  }
}
static int
has_alt(const struct rs_decision *d, int rule, int code) {
  for (int i = 0; i < d->n; i++)
    if (d->out[i].rule == rule && d->out[i].code == code)
      return 1;
  return 0;
}

int
rs_selftest(void) {
  st_fail = 0;
  struct rs_table t;
  memset(&t, 0, sizeof t);
  t.builtin_wkc = 1;
  t.nres = 2;
  t.res[0] = (struct rs_res){.nseg = 1, .seg = {"a"}, .methods = 0x01, .behaviour = RS_B_CONTENT};
  t.res[1] = (struct rs_res){.nseg = 2, .seg = {"a", "b"}, .methods = 0x7f, .behaviour = RS_B_NOCODE};
  struct rs_decision d;
  struct rs_req q;
  static const uint8_t one = 1, zero = 0, eight = 8, two = 2;

#define REQ(ty, co) memset(&q, 0, sizeof q), q.type = (ty), q.code = (co)
#define OPT(n, v, l) q.opt[q.nopt].num = (n), q.opt[q.nopt].val = (const uint8_t *)(v), q.opt[q.nopt].len = (l), q.nopt++

  REQ(RS_T_CON, 1); OPT(11, "a", 1);
  rs_decide(&t, &q, &d); expect("CON GET a", &d, RS_R_HANDLER, RS_K_RESPONSE, RS_CODE(2, 5), 0);
  REQ(RS_T_NON, 2); OPT(11, "a", 1);
  rs_decide(&t, &q, &d); expect("NON POST a (GET only)", &d, RS_R_NO_METHOD, RS_K_RESPONSE, RS_CODE(4, 5), RS_H_NONE);
  REQ(RS_T_CON, 1); OPT(11, "zz", 2);
  rs_decide(&t, &q, &d); expect("GET zz", &d, RS_R_NOT_FOUND, RS_K_RESPONSE, RS_CODE(4, 4), RS_H_NONE);
  REQ(RS_T_CON, 4); OPT(11, "zz", 2);
  rs_decide(&t, &q, &d); expect("DELETE zz", &d, RS_R_NOT_FOUND, RS_K_RESPONSE, RS_CODE(2, 2), RS_H_NONE);
  REQ(RS_T_CON, 3); OPT(5, "", 0); OPT(11, "a", 1); OPT(11, "b", 1);
  rs_decide(&t, &q, &d); expect("PUT a/b If-None-Match", &d, RS_R_PRECONDITION, RS_K_RESPONSE, RS_CODE(4, 12), RS_H_NONE);
  REQ(RS_T_CON, 3); OPT(5, "", 0); OPT(11, "zz", 2);
  rs_decide(&t, &q, &d); expect("PUT zz If-None-Match", &d, RS_R_NOT_FOUND, RS_K_RESPONSE, RS_CODE(4, 4), RS_H_NONE);
  REQ(RS_T_CON, 5); OPT(11, "a", 1); OPT(11, "b", 1);
  rs_decide(&t, &q, &d); expect("FETCH a/b no CF", &d, RS_R_FETCH_NO_CF, RS_K_RESPONSE, RS_CODE(4, 15), RS_H_NONE);
  REQ(RS_T_CON, 5); OPT(11, "a", 1); OPT(11, "b", 1); OPT(12, "", 0);
  rs_decide(&t, &q, &d); expect("FETCH a/b CF, handler leaves code 0", &d, RS_R_HANDLER, RS_K_EMPTY_ACK, 0, 1);
  REQ(RS_T_NON, 5); OPT(11, "a", 1); OPT(11, "b", 1); OPT(12, "", 0);
  rs_decide(&t, &q, &d); expect("NON FETCH a/b, code 0", &d, RS_R_HANDLER, RS_K_NONE, 0, 1);
  REQ(RS_T_CON, 5); OPT(11, "a", 1);
  rs_decide(&t, &q, &d); expect("FETCH a (GET only) no CF", &d, RS_R_NO_METHOD, RS_K_RESPONSE, RS_CODE(4, 5), RS_H_NONE);
  if (!has_alt(&d, RS_R_FETCH_NO_CF, RS_CODE(4, 15))) { fprintf(stderr, "refsrv selftest: 4.15 alternative missing\n"); st_fail++; }
  /* options */
  REQ(RS_T_CON, 1); OPT(9, "x", 1); OPT(11, "a", 1);
  rs_decide(&t, &q, &d); expect("CON unknown critical 9", &d, RS_R_BAD_OPTION, RS_K_RESPONSE, RS_CODE(4, 2), RS_H_NONE);
  if (d.out[0].necho != 0) { fprintf(stderr, "refsrv selftest: echo list (OSCORE value must not be reflected)\n"); st_fail++; }
  REQ(RS_T_NON, 1); OPT(11, "a", 1); OPT(2051, "x", 1);
  rs_decide(&t, &q, &d); expect("NON unknown critical 2051", &d, RS_R_BAD_OPTION, RS_K_RST, 0, RS_H_NONE);
  q.type = RS_T_CON;
  rs_decide(&t, &q, &d);
  if (d.out[0].necho != 1 || d.out[0].echo[0] != 2051) { fprintf(stderr, "refsrv selftest: echo list 2051\n"); st_fail++; }
  q.type = RS_T_NON;
  q.mcast = 1;
  rs_decide(&t, &q, &d); expect("mcast NON unknown critical", &d, RS_R_BAD_OPTION, RS_K_NONE, 0, RS_H_NONE);
  REQ(RS_T_CON, 1); OPT(11, "a", 1); OPT(2050, "x", 1);
  rs_decide(&t, &q, &d); expect("unknown elective", &d, RS_R_HANDLER, RS_K_RESPONSE, RS_CODE(2, 5), 0);
  REQ(RS_T_CON, 2); OPT(11, "a", 1); OPT(11, "b", 1); OPT(12, "", 0); OPT(12, "", 0);
  rs_decide(&t, &q, &d); expect("2x Content-Format", &d, RS_R_BAD_OPTION, RS_K_RESPONSE, RS_CODE(4, 2), RS_H_NONE);
  REQ(RS_T_CON, 1); OPT(4, "e", 1); OPT(4, "f", 1); OPT(11, "a", 1);
  rs_decide(&t, &q, &d); expect("2x ETag", &d, RS_R_HANDLER, RS_K_RESPONSE, RS_CODE(2, 5), 0);
  /* proxy, hop limit */
  REQ(RS_T_CON, 1); OPT(35, "coap://h/x", 10);
  rs_decide(&t, &q, &d); expect("Proxy-Uri, no proxy", &d, RS_R_PROXY_UNSUPPORTED, RS_K_RESPONSE, RS_CODE(5, 5), RS_H_NONE);
  REQ(RS_T_CON, 1); OPT(11, "a", 1); OPT(39, "coap", 4);
  rs_decide(&t, &q, &d); expect("Proxy-Scheme (no Uri-Host), no proxy", &d, RS_R_PROXY_SCHEME_NO_HOST, RS_K_RESPONSE, RS_CODE(5, 5), RS_H_NONE);
  REQ(RS_T_CON, 1); OPT(3, "h", 1); OPT(11, "a", 1); OPT(39, "coap", 4);
  rs_decide(&t, &q, &d); expect("Proxy-Scheme + Uri-Host, no proxy", &d, RS_R_PROXY_UNSUPPORTED, RS_K_RESPONSE, RS_CODE(5, 5), RS_H_NONE);
  REQ(RS_T_CON, 1); OPT(11, "a", 1); OPT(16, &one, 1);
  rs_decide(&t, &q, &d); expect("Hop-Limit 1", &d, RS_R_HOP_LIMIT, RS_K_RESPONSE, RS_CODE(5, 8), RS_H_NONE);
  REQ(RS_T_CON, 1); OPT(11, "a", 1); OPT(16, &zero, 1);
  rs_decide(&t, &q, &d); expect("Hop-Limit 0", &d, RS_R_HOP_LIMIT, RS_K_RESPONSE, RS_CODE(4, 0), RS_H_NONE);
  REQ(RS_T_CON, 1); OPT(11, "a", 1); OPT(16, &two, 1);
  rs_decide(&t, &q, &d); expect("Hop-Limit 2", &d, RS_R_HANDLER, RS_K_RESPONSE, RS_CODE(2, 5), 0);
  /* datagram level */
  REQ(RS_T_CON, 0);
  rs_decide(&t, &q, &d); expect("ping", &d, RS_R_EMPTY_PING, RS_K_RST, 0, RS_H_NONE);
  REQ(RS_T_CON, RS_CODE(1, 0));
  rs_decide(&t, &q, &d); expect("CON 1.00", &d, RS_R_INVALID_CLASS, RS_K_RST, 0, RS_H_NONE);
  REQ(RS_T_NON, RS_CODE(7, 1));
  rs_decide(&t, &q, &d); expect("NON 7.01", &d, RS_R_INVALID_CLASS, RS_K_NONE, 0, RS_H_NONE);
  REQ(RS_T_ACK, 1); OPT(11, "a", 1);
  rs_decide(&t, &q, &d); expect("ACK-typed GET", &d, RS_R_NOT_REQUEST_TYPE, RS_K_NONE, 0, RS_H_NONE);
  REQ(RS_T_CON, 8); OPT(11, "a", 1);
  rs_decide(&t, &q, &d); expect("method 0.08", &d, RS_R_NO_METHOD, RS_K_RESPONSE, RS_CODE(4, 5), RS_H_NONE);
  /* No-Response */
  REQ(RS_T_CON, 1); OPT(11, "a", 1); OPT(258, &two, 1);
  rs_decide(&t, &q, &d); expect("No-Response 2 on 2.05 CON", &d, RS_R_HANDLER, RS_K_EMPTY_ACK, RS_CODE(2, 5), 0);
  REQ(RS_T_NON, 1); OPT(11, "a", 1); OPT(258, &two, 1);
  rs_decide(&t, &q, &d); expect("No-Response 2 on 2.05 NON", &d, RS_R_HANDLER, RS_K_NONE, RS_CODE(2, 5), 0);
  REQ(RS_T_NON, 1); OPT(11, "a", 1); OPT(258, &eight, 1);
  rs_decide(&t, &q, &d); expect("No-Response 8 on 2.05", &d, RS_R_HANDLER, RS_K_RESPONSE, RS_CODE(2, 5), 0);
  REQ(RS_T_NON, 1); OPT(11, "zz", 2); OPT(258, &eight, 1);
  rs_decide(&t, &q, &d); expect("No-Response 8 on 4.04", &d, RS_R_NOT_FOUND, RS_K_NONE, RS_CODE(4, 4), RS_H_NONE);
  /* multicast */
  REQ(RS_T_NON, 1); OPT(11, "zz", 2); q.mcast = 1;
  rs_decide(&t, &q, &d); expect("mcast 4.04 suppressed", &d, RS_R_NOT_FOUND, RS_K_NONE, RS_CODE(4, 4), RS_H_NONE);
  REQ(RS_T_NON, 1); OPT(11, "zz", 2); OPT(258, "", 0); q.mcast = 1;
  rs_decide(&t, &q, &d); expect("mcast 4.04 with No-Response 0", &d, RS_R_NOT_FOUND, RS_K_RESPONSE, RS_CODE(4, 4), RS_H_NONE);
  REQ(RS_T_NON, 1); OPT(11, "a", 1); q.mcast = 1;
  rs_decide(&t, &q, &d); expect("mcast 2.05", &d, RS_R_HANDLER, RS_K_RESPONSE, RS_CODE(2, 5), 0);
  t.mcast_per_resource = 1;
  rs_decide(&t, &q, &d); expect("mcast per-resource, no support", &d, RS_R_MCAST_UNSUPPORTED, RS_K_NONE, RS_CODE(4, 5), RS_H_NONE);
  t.res[0].mc = RS_MC_SUPPORT | RS_MC_SUPP_2XX;
  rs_decide(&t, &q, &d); expect("mcast per-resource, 2.xx suppressed", &d, RS_R_HANDLER, RS_K_NONE, RS_CODE(2, 5), 0);
  t.mcast_per_resource = 0;
  t.res[0].mc = 0;
  /* unknown + proxy resources */
  t.has_unknown = 1;
  t.unknown = (struct rs_res){.methods = 0x04, .behaviour = RS_B_CONTENT};
  REQ(RS_T_CON, 3); OPT(11, "zz", 2);
  rs_decide(&t, &q, &d); expect("PUT zz with unknown handler", &d, RS_R_HANDLER, RS_K_RESPONSE, RS_CODE(2, 5), RS_H_UNKNOWN);
  REQ(RS_T_CON, 1); OPT(11, "zz", 2);
  rs_decide(&t, &q, &d); expect("GET zz with PUT-only unknown handler", &d, RS_R_NOT_FOUND, RS_K_RESPONSE, RS_CODE(4, 4), RS_H_NONE);
  if (!has_alt(&d, RS_R_NO_METHOD, RS_CODE(4, 5))) { fprintf(stderr, "refsrv selftest: 4.05 alternative missing\n"); st_fail++; }
  REQ(RS_T_CON, 1); OPT(11, ".well-known", 11); OPT(11, "core", 4);
  rs_decide(&t, &q, &d); expect("GET .well-known/core", &d, RS_R_HANDLER, RS_K_RESPONSE, RS_CODE(2, 5), RS_H_WKC);
  t.has_proxy = 1;
  t.proxy = (struct rs_res){.methods = 0x7f, .behaviour = RS_B_CONTENT};
  t.nproxy_names = 1;
  t.proxy_names[0] = "other";
  REQ(RS_T_CON, 1); OPT(35, "coap://h/x", 10);
  rs_decide(&t, &q, &d); expect("Proxy-Uri forwarded", &d, RS_R_HANDLER, RS_K_RESPONSE, RS_CODE(2, 5), RS_H_PROXY);
  REQ(RS_T_CON, 1); OPT(9, "x", 1); OPT(35, "coap://h/x", 10);
  rs_decide(&t, &q, &d);
  if (d.out[0].rule != RS_R_OSCORE_PROXY || !d.out[0].unspecified) { fprintf(stderr, "refsrv selftest: OSCORE option on proxy request\n"); st_fail++; }
  REQ(RS_T_CON, 1); OPT(35, "coap://h/x", 10); OPT(2049, "x", 1);
  rs_decide(&t, &q, &d); expect("Proxy-Uri forwarded with safe-to-forward critical 2049", &d, RS_R_HANDLER, RS_K_RESPONSE, RS_CODE(2, 5), RS_H_PROXY);
  REQ(RS_T_CON, 1); OPT(35, "coap://h/x", 10); OPT(2051, "x", 1);
  rs_decide(&t, &q, &d); expect("Proxy-Uri with unsafe critical 2051", &d, RS_R_BAD_OPTION, RS_K_RESPONSE, RS_CODE(4, 2), RS_H_NONE);
  t.proxy_names[0] = "h";
  REQ(RS_T_CON, 1); OPT(35, "coap://h/x", 10); OPT(2049, "x", 1);
  rs_decide(&t, &q, &d); expect("Proxy-Uri to self with unknown critical", &d, RS_R_BAD_OPTION, RS_K_RESPONSE, RS_CODE(4, 2), RS_H_NONE);
  REQ(RS_T_CON, 1); OPT(3, "h", 1); OPT(11, "a", 1); OPT(39, "coap", 4);
  rs_decide(&t, &q, &d); expect("Proxy-Scheme to self", &d, RS_R_HANDLER, RS_K_RESPONSE, RS_CODE(2, 5), 0);
#undef REQ
#undef OPT
  return st_fail;
}

#ifdef REFSRV_MAIN
int
main(void) {
  int f = rs_selftest();
  printf("refsrv selftest: %s (%d failed)\n", f ? "FAIL" : "ok", f);
  return f != 0;
}
#endif
