/* refuri -- see refuri.h.  Deliberately dumb: arrays, linear scans, one pass per rule of the RFC text. */
#include "refuri.h"
#include <string.h>

const struct ref_scheme_info ref_schemes[REF_SCHEME_N] = {
    [REF_COAP] = {"coap", 5683, 0},          /* RFC 7252 6.1 */
    [REF_COAPS] = {"coaps", 5684, 0},        /* RFC 7252 6.2 */
    [REF_COAP_TCP] = {"coap+tcp", 5683, 0},  /* RFC 8323 8.1 */
    [REF_COAPS_TCP] = {"coaps+tcp", 5684, 0}, /* RFC 8323 8.2 */
    [REF_COAP_WS] = {"coap+ws", 80, 0},      /* RFC 8323 8.3 */
    [REF_COAPS_WS] = {"coaps+ws", 443, 0},   /* RFC 8323 8.4 */
    [REF_HTTP] = {"http", 80, 1},            /* RFC 7230 2.7.1 */
    [REF_HTTPS] = {"https", 443, 1},         /* RFC 7230 2.7.2 */
};

static const char *const reason_names[] = {
    "empty", "no-scheme", "scheme-unknown", "scheme-proxy-only", "no-authority", "host-empty",
    "ipliteral-unterminated", "ipliteral-empty", "ipliteral-junk", "port-nondigit", "port-range",
    "fragment", "userinfo", "ipliteral-delim", "ipliteral-bad", "host-char", "host-pct", "path-char",
    "path-pct", "query-char", "query-pct"};

const char *
ref_reason_name(uint32_t bit) {
  for (unsigned i = 0; i < sizeof reason_names / sizeof reason_names[0]; i++)
    if (bit == (1u << i))
      return reason_names[i];
  return "?";
}
const char *
ref_first_reason(uint32_t mask) {
  if (!mask)
    return "valid";
  for (unsigned i = 0; i < 32; i++)
    if (mask & (1u << i))
      return ref_reason_name(1u << i);
  return "?";
}

/* ---- character classes of RFC 3986 ----------------------------------------------------------------- */
static int
is_alpha(uint8_t c) {
  return (c >= 'A' && c <= 'Z') || (c >= 'a' && c <= 'z');
}
static int
is_digit(uint8_t c) {
  return c >= '0' && c <= '9';
}
int
ref_is_hex(uint8_t c) {
  return is_digit(c) || (c >= 'A' && c <= 'F') || (c >= 'a' && c <= 'f');
}
static int
hexval(uint8_t c) {
  if (is_digit(c))
    return c - '0';
  if (c >= 'A' && c <= 'F')
    return c - 'A' + 10;
  return c - 'a' + 10;
}
static int
is_unreserved(uint8_t c) {
  return is_alpha(c) || is_digit(c) || c == '-' || c == '.' || c == '_' || c == '~';
}
static int
is_subdelim(uint8_t c) {
  return c == '!' || c == '$' || c == '&' || c == '\'' || c == '(' || c == ')' || c == '*' || c == '+' || c == ',' ||
         c == ';' || c == '=';
}
static int
in_set(uint8_t c, const char *set) {
  for (; *set; set++)
    if ((uint8_t)*set == c)
      return 1;
  return 0;
}

/* Validates a component: every byte is allowed by `extra` / unreserved / sub-delims, or is a complete
 * percent-escape.  Returns bit 0 set for a forbidden character, bit 1 for a malformed escape. */
static int
check_chars(const uint8_t *s, size_t n, const char *extra) {
  int r = 0;
  for (size_t i = 0; i < n; i++) {
    uint8_t c = s[i];
    if (c == '%') {
      if (n - i >= 3 && ref_is_hex(s[i + 1]) && ref_is_hex(s[i + 2]))
        i += 2;
      else
        r |= 2;
    } else if (!(is_unreserved(c) || is_subdelim(c) || in_set(c, extra)))
      r |= 1;
  }
  return r;
}

/* ---- IP-literal grammar (RFC 3986 3.2.2) ------------------------------------------------------------- */
static int
valid_dec_octet(const uint8_t *s, size_t n) {
  if (n < 1 || n > 3)
    return 0;
  for (size_t i = 0; i < n; i++)
    if (!is_digit(s[i]))
      return 0;
  if (n > 1 && s[0] == '0')
    return 0; /* no leading zeros in dec-octet */
  int v = 0;
  for (size_t i = 0; i < n; i++)
    v = v * 10 + (s[i] - '0');
  return v <= 255;
}
static int
valid_ipv4(const uint8_t *s, size_t n) {
  int parts = 0;
  size_t i = 0;
  for (;;) {
    size_t j = i;
    while (j < n && s[j] != '.')
      j++;
    if (!valid_dec_octet(s + i, j - i))
      return 0;
    parts++;
    if (j == n)
      break;
    i = j + 1;
    if (i == n)
      return 0; /* trailing '.' */
  }
  return parts == 4;
}
static int
valid_ipv6(const uint8_t *s, size_t n) {
  int groups = 0, compressed = 0;
  size_t i = 0;
  if (n < 2)
    return 0;
  if (s[0] == ':') {
    if (s[1] != ':')
      return 0;
    compressed = 1;
    i = 2;
    if (i == n)
      return 1; /* "::" */
  }
  for (;;) {
    size_t j = i;
    while (j < n && ref_is_hex(s[j]))
      j++;
    if (j < n && s[j] == '.') { /* ls32 written as IPv4address: must be the tail */
      if (!valid_ipv4(s + i, n - i))
        return 0;
      groups += 2;
      break;
    }
    if (j - i < 1 || j - i > 4)
      return 0;
    groups++;
    i = j;
    if (i == n)
      break;
    if (s[i] != ':')
      return 0;
    i++;
    if (i == n)
      return 0; /* single trailing ':' */
    if (s[i] == ':') {
      if (compressed)
        return 0;
      compressed = 1;
      i++;
      if (i == n)
        break; /* ends with "::" */
    }
  }
  return compressed ? groups <= 7 : groups == 8;
}
static int
valid_ipvfuture(const uint8_t *s, size_t n) {
  size_t i = 1;
  if (n < 4 || (s[0] != 'v' && s[0] != 'V'))
    return 0;
  while (i < n && ref_is_hex(s[i]))
    i++;
  if (i == 1 || i >= n || s[i] != '.')
    return 0;
  i++;
  if (i == n)
    return 0;
  for (; i < n; i++)
    if (!(is_unreserved(s[i]) || is_subdelim(s[i]) || s[i] == ':'))
      return 0;
  return 1;
}

/* ---- RFC 3986 section 3 split ------------------------------------------------------------------------ */
static int
ascii_ieq(const uint8_t *s, size_t n, const char *name) {
  if (strlen(name) != n)
    return 0;
  for (size_t i = 0; i < n; i++) {
    uint8_t a = s[i], b = (uint8_t)name[i];
    if (a >= 'A' && a <= 'Z')
      a = (uint8_t)(a - 'A' + 'a');
    if (a != b)
      return 0;
  }
  return 1;
}

uint32_t
ref_uri_split(const uint8_t *s, size_t n, int allow_proxy_schemes, struct ref_uri *u) {
  uint32_t mask = 0;
  size_t i = 0;
  memset(u, 0, sizeof *u);
  u->scheme = -1;
  if (n == 0)
    return REF_R_EMPTY;

  /* scheme = ALPHA *( ALPHA / DIGIT / "+" / "-" / "." ) ":"   (appendix B: ^(([^:/?#]+):)? ) */
  while (i < n && !in_set(s[i], ":/?#"))
    i++;
  if (i == 0 || i == n || s[i] != ':')
    return REF_R_NO_SCHEME;
  if (!is_alpha(s[0]))
    return REF_R_NO_SCHEME;
  for (size_t k = 1; k < i; k++)
    if (!(is_alpha(s[k]) || is_digit(s[k]) || s[k] == '+' || s[k] == '-' || s[k] == '.'))
      return REF_R_NO_SCHEME;
  u->scheme_s.s = s;
  u->scheme_s.n = i;
  for (int k = 0; k < REF_SCHEME_N; k++)
    if (ascii_ieq(s, i, ref_schemes[k].name))
      u->scheme = k;
  if (u->scheme < 0)
    return REF_R_SCHEME_UNKNOWN;
  if (ref_schemes[u->scheme].proxy_only && !allow_proxy_schemes)
    return REF_R_SCHEME_PROXY_ONLY;
  u->port = ref_schemes[u->scheme].default_port;
  i++; /* ':' */

  /* hier-part = "//" authority path-abempty   (the only form a coap / http URI may take) */
  if (!(i + 2 <= n && s[i] == '/' && s[i + 1] == '/'))
    return REF_R_NO_AUTHORITY;
  i += 2;
  u->has_authority = 1;
  size_t a0 = i;
  while (i < n && !in_set(s[i], "/?#"))
    i++;
  size_t a1 = i;
  u->authority.s = s + a0;
  u->authority.n = a1 - a0;
  size_t p0 = i;
  while (i < n && !in_set(s[i], "?#"))
    i++;
  u->path.s = s + p0;
  u->path.n = i - p0;
  if (i < n && s[i] == '?') {
    size_t q0 = ++i;
    while (i < n && s[i] != '#')
      i++;
    u->has_query = 1;
    u->query.s = s + q0;
    u->query.n = i - q0;
  }
  if (i < n && s[i] == '#') {
    u->has_fragment = 1;
    u->fragment.s = s + i + 1;
    u->fragment.n = n - i - 1;
    mask |= REF_R_FRAGMENT;
  }

  /* authority = [ userinfo "@" ] host [ ":" port ] */
  size_t h0 = a0;
  for (size_t k = a0; k < a1; k++)
    if (s[k] == '@') {
      u->has_userinfo = 1;
      u->userinfo.s = s + a0;
      u->userinfo.n = k - a0;
      h0 = k + 1;
    }
  if (u->has_userinfo)
    mask |= REF_R_USERINFO;

  const uint8_t *port_s = NULL;
  size_t port_n = 0;
  if (h0 < a1 && s[h0] == '[') {
    size_t k = h0 + 1;
    u->host_is_ipliteral = 1;
    while (k < a1 && s[k] != ']')
      k++;
    if (k == a1) {
      /* no "]" inside the authority */
      size_t m = a1;
      while (m < n && s[m] != ']')
        m++;
      mask |= m < n ? REF_R_IPLIT_DELIM : REF_R_IPLIT_UNTERMINATED;
      u->host.s = s + h0 + 1;
      u->host.n = a1 - h0 - 1;
    } else {
      u->host.s = s + h0 + 1;
      u->host.n = k - h0 - 1;
      if (u->host.n == 0)
        mask |= REF_R_IPLIT_EMPTY;
      else if (!valid_ipv6(u->host.s, u->host.n) && !valid_ipvfuture(u->host.s, u->host.n))
        mask |= REF_R_IPLIT_BAD;
      k++;
      if (k < a1) {
        if (s[k] == ':') {
          port_s = s + k + 1;
          port_n = a1 - k - 1;
        } else
          mask |= REF_R_IPLIT_JUNK;
      }
    }
  } else {
    size_t k = h0;
    while (k < a1 && s[k] != ':')
      k++;
    u->host.s = s + h0;
    u->host.n = k - h0;
    if (k < a1) {
      port_s = s + k + 1;
      port_n = a1 - k - 1;
    }
    if (u->host.n == 0)
      mask |= REF_R_HOST_EMPTY;
    int r = check_chars(u->host.s, u->host.n, "");
    if (r & 1)
      mask |= REF_R_HOST_CHAR;
    if (r & 2)
      mask |= REF_R_HOST_PCT;
  }
  if (port_n) { /* port = *DIGIT ; empty means default (RFC 7252 6.1) */
    uint32_t v = 0;
    int ok = 1, over = 0;
    for (size_t k = 0; k < port_n; k++) {
      if (!is_digit(port_s[k])) {
        ok = 0;
        break;
      }
      v = v * 10 + (uint32_t)(port_s[k] - '0');
      if (v > 65535) {
        over = 1;
        v = 65536; /* saturate */
      }
    }
    if (!ok)
      mask |= REF_R_PORT_NONDIGIT;
    else if (over)
      mask |= REF_R_PORT_RANGE;
    else {
      u->has_port = 1;
      u->port = v;
    }
  }

  /* path-abempty = *( "/" segment ), segment = *pchar ; query = *( pchar / "/" / "?" ) */
  int r = check_chars(u->path.s, u->path.n, ":@/");
  if (r & 1)
    mask |= REF_R_PATH_CHAR;
  if (r & 2)
    mask |= REF_R_PATH_PCT;
  if (u->has_query) {
    r = check_chars(u->query.s, u->query.n, ":@/?");
    if (r & 1)
      mask |= REF_R_QUERY_CHAR;
    if (r & 2)
      mask |= REF_R_QUERY_PCT;
  }
  return mask;
}

/* ---- percent-decoding, dot-segments ---------------------------------------------------------------- */
int
ref_pct_decode(const uint8_t *s, size_t n, uint8_t *out, size_t cap) {
  size_t o = 0;
  for (size_t i = 0; i < n; i++) {
    uint8_t c = s[i];
    if (c == '%') {
      if (n - i < 3 || !ref_is_hex(s[i + 1]) || !ref_is_hex(s[i + 2]))
        return REF_E_PCT;
      c = (uint8_t)(hexval(s[i + 1]) * 16 + hexval(s[i + 2]));
      i += 2;
    }
    if (o >= cap)
      return REF_E_CAPACITY;
    out[o++] = c;
  }
  return (int)o;
}

int
ref_segment_dots(const uint8_t *s, size_t n) {
  uint8_t d[8];
  if (n > 6) { /* "%2e%2e" is the longest spelling of ".." */
    uint8_t big[REF_MAXSEGLEN * 3];
    if (n > sizeof big)
      return 0;
    return ref_pct_decode(s, n, big, sizeof big) == REF_E_PCT ? REF_E_PCT : 0;
  }
  int m = ref_pct_decode(s, n, d, sizeof d);
  if (m == REF_E_PCT)
    return REF_E_PCT;
  if (m == 1 && d[0] == '.')
    return 1;
  if (m == 2 && d[0] == '.' && d[1] == '.')
    return 2;
  return 0;
}

static int
starts_with(const uint8_t *s, size_t n, const char *pfx) {
  size_t l = strlen(pfx);
  return n >= l && memcmp(s, pfx, l) == 0;
}
static int
equals(const uint8_t *s, size_t n, const char *str) {
  return n == strlen(str) && memcmp(s, str, n) == 0;
}

/* RFC 3986 5.2.4, steps 1, 2A-2E, 3 as written. */
size_t
ref_remove_dot_segments(const uint8_t *in0, size_t n0, uint8_t *out, size_t cap) {
  uint8_t in[2048];
  size_t n = n0, o = 0;
  if (n0 > sizeof in - 2 || cap < n0 + 1)
    return 0;
  memcpy(in, in0, n0);
  uint8_t *p = in;
  while (n > 0) {
    if (starts_with(p, n, "../")) { /* A */
      p += 3, n -= 3;
    } else if (starts_with(p, n, "./")) {
      p += 2, n -= 2;
    } else if (starts_with(p, n, "/./")) { /* B */
      p += 2, n -= 2;
    } else if (equals(p, n, "/.")) {
      p += 1, n -= 1;
      p[0] = '/';
    } else if (starts_with(p, n, "/../") || equals(p, n, "/..")) { /* C */
      if (n == 3) {
        p += 2, n -= 2;
        p[0] = '/';
      } else
        p += 3, n -= 3;
      while (o > 0 && out[o - 1] != '/')
        o--;
      if (o > 0)
        o--; /* the preceding "/" */
    } else if (equals(p, n, ".") || equals(p, n, "..")) { /* D */
      n = 0;
    } else { /* E */
      size_t k = 0;
      if (p[0] == '/')
        k = 1;
      while (k < n && p[k] != '/')
        k++;
      memcpy(out + o, p, k);
      o += k;
      p += k, n -= k;
    }
  }
  return o;
}

static int
push_segment(struct ref_seglist *l, const uint8_t *s, size_t n) {
  if (l->n >= REF_MAXSEG)
    return REF_E_CAPACITY;
  int m = ref_pct_decode(s, n, l->seg[l->n], REF_MAXSEGLEN);
  if (m < 0)
    return m;
  l->len[l->n++] = (size_t)m;
  return 0;
}

int
ref_path_to_segments(const uint8_t *path, size_t n, struct ref_seglist *out) {
  uint8_t norm[2048], res[2048];
  size_t nn = 0;
  out->n = 0;
  if (n > sizeof norm / 2)
    return REF_E_CAPACITY;
  /* every escape in the path must be well-formed (RFC 3986 2.1) */
  for (size_t i = 0; i < n; i++)
    if (path[i] == '%' && (n - i < 3 || !ref_is_hex(path[i + 1]) || !ref_is_hex(path[i + 2])))
      return REF_E_PCT;
  /* RFC 3986 6.2.2.2: "%2e" is the unreserved character "."; write escaped dot-segments literally */
  for (size_t i = 0; i <= n;) {
    size_t j = i;
    while (j < n && path[j] != '/')
      j++;
    int d = ref_segment_dots(path + i, j - i);
    if (d == 1)
      norm[nn++] = '.';
    else if (d == 2)
      norm[nn++] = '.', norm[nn++] = '.';
    else {
      memcpy(norm + nn, path + i, j - i);
      nn += j - i;
    }
    if (j < n)
      norm[nn++] = '/';
    i = j + 1;
  }
  /* RFC 7252 6.4 step 3 (reference resolution => remove_dot_segments) */
  size_t rn = ref_remove_dot_segments(norm, nn, res, sizeof res);
  /* step 8 */
  if (rn == 0 || (rn == 1 && res[0] == '/'))
    return 0;
  size_t i = res[0] == '/' ? 1 : 0;
  for (;;) {
    size_t j = i;
    while (j < rn && res[j] != '/')
      j++;
    int e = push_segment(out, res + i, j - i);
    if (e < 0)
      return e;
    if (j == rn)
      break;
    i = j + 1;
  }
  return 0;
}

int
ref_query_to_segments(const uint8_t *q, size_t n, struct ref_seglist *out) {
  out->n = 0;
  size_t i = 0;
  for (;;) { /* step 9: one option per argument, arguments are delimited by '&' */
    size_t j = i;
    while (j < n && q[j] != '&')
      j++;
    int e = push_segment(out, q + i, j - i);
    if (e < 0)
      return e;
    if (j == n)
      break;
    i = j + 1;
  }
  return 0;
}

/* ---- RFC 7252 6.4 steps 5-9 ---------------------------------------------------------------------------- */
static int
add_opt(struct ref_optlist *l, uint16_t num, const uint8_t *v, size_t n) {
  if (l->n >= REF_MAXOPT || n > REF_MAXSEGLEN)
    return REF_E_CAPACITY;
  l->o[l->n].num = num;
  l->o[l->n].len = n;
  if (n)
    memcpy(l->o[l->n].val, v, n);
  l->n++;
  return 0;
}

int
ref_uri_to_options(const struct ref_uri *u, int host_is_destination, struct ref_optlist *out) {
  out->n = 0;
  int e;
  /* step 5: Uri-Host = host without brackets, lower-cased, then percent-decoded */
  if (!host_is_destination) {
    uint8_t low[REF_MAXSEGLEN], dec[REF_MAXSEGLEN];
    if (u->host.n > sizeof low)
      return REF_E_CAPACITY;
    for (size_t i = 0; i < u->host.n; i++) {
      uint8_t c = u->host.s[i];
      low[i] = (c >= 'A' && c <= 'Z') ? (uint8_t)(c - 'A' + 'a') : c;
    }
    int m = ref_pct_decode(low, u->host.n, dec, sizeof dec);
    if (m < 0)
      return m;
    if ((e = add_opt(out, REF_OPT_URI_HOST, dec, (size_t)m)) < 0)
      return e;
  }
  /* steps 6/7: Uri-Port only when the port is not the scheme's default */
  if (u->scheme >= 0 && u->port != ref_schemes[u->scheme].default_port) {
    uint8_t b[2];
    size_t bl = 0;
    if (u->port > 255)
      b[bl++] = (uint8_t)(u->port >> 8);
    if (u->port > 0)
      b[bl++] = (uint8_t)(u->port & 0xff);
    if ((e = add_opt(out, REF_OPT_URI_PORT, b, bl)) < 0)
      return e;
  }
  /* step 8 */
  struct ref_seglist sl;
  if ((e = ref_path_to_segments(u->path.s, u->path.n, &sl)) < 0)
    return e;
  for (int i = 0; i < sl.n; i++)
    if ((e = add_opt(out, REF_OPT_URI_PATH, sl.seg[i], sl.len[i])) < 0)
      return e;
  /* step 9 */
  if (u->has_query) {
    if ((e = ref_query_to_segments(u->query.s, u->query.n, &sl)) < 0)
      return e;
    for (int i = 0; i < sl.n; i++)
      if ((e = add_opt(out, REF_OPT_URI_QUERY, sl.seg[i], sl.len[i])) < 0)
        return e;
  }
  return 0;
}

/* ---- RFC 7252 6.5 ------------------------------------------------------------------------------------ */
static size_t
put_escaped(uint8_t *out, size_t cap, size_t o, const uint8_t *s, size_t n, const char *extra, int amp_ok) {
  static const char hex[] = "0123456789ABCDEF";
  for (size_t i = 0; i < n; i++) {
    uint8_t c = s[i];
    int plain = is_unreserved(c) || (is_subdelim(c) && (amp_ok || c != '&')) || in_set(c, extra);
    if (plain) {
      if (o + 1 > cap)
        return (size_t)-1;
      out[o++] = c;
    } else {
      if (o + 3 > cap)
        return (size_t)-1;
      out[o++] = '%';
      out[o++] = (uint8_t)hex[c >> 4];
      out[o++] = (uint8_t)hex[c & 15];
    }
  }
  return o;
}

size_t
ref_compose_path(const struct ref_seglist *l, uint8_t *out, size_t cap) {
  size_t o = 0;
  for (int i = 0; i < l->n; i++) { /* step 6 */
    if (o + 1 > cap)
      return 0;
    out[o++] = '/';
    o = put_escaped(out, cap, o, l->seg[i], l->len[i], ":@", 1);
    if (o == (size_t)-1)
      return 0;
  }
  if (o == 0) {
    if (cap < 1)
      return 0;
    out[o++] = '/';
  }
  return o;
}

size_t
ref_compose_query(const struct ref_seglist *l, uint8_t *out, size_t cap) {
  size_t o = 0;
  for (int i = 0; i < l->n; i++) { /* step 7 */
    if (i) {
      if (o + 1 > cap)
        return 0;
      out[o++] = '&';
    }
    o = put_escaped(out, cap, o, l->seg[i], l->len[i], ":@/?", 0);
    if (o == (size_t)-1)
      return 0;
  }
  return o;
}

int
ref_seglist_equal(const struct ref_seglist *a, const struct ref_seglist *b) {
  if (a->n != b->n)
    return 0;
  for (int i = 0; i < a->n; i++)
    if (a->len[i] != b->len[i] || memcmp(a->seg[i], b->seg[i], a->len[i]) != 0)
      return 0;
  return 1;
}
int
ref_seglist_equal_mod_empty(const struct ref_seglist *a, const struct ref_seglist *b) {
  int an = (a->n == 1 && a->len[0] == 0) ? 0 : a->n;
  int bn = (b->n == 1 && b->len[0] == 0) ? 0 : b->n;
  if (an != bn)
    return 0;
  if (an == 0)
    return 1;
  return ref_seglist_equal(a, b);
}

/* ---- self-test ----------------------------------------------------------------------------------------- */
static int
rds_is(const char *in, const char *want) {
  uint8_t out[256];
  size_t n = ref_remove_dot_segments((const uint8_t *)in, strlen(in), out, sizeof out);
  return n == strlen(want) && memcmp(out, want, n) == 0;
}
static int
list_is(const struct ref_seglist *l, int n, const char *const *want) {
  if (l->n != n)
    return 0;
  for (int i = 0; i < n; i++)
    if (l->len[i] != strlen(want[i]) || memcmp(l->seg[i], want[i], l->len[i]) != 0)
      return 0;
  return 1;
}
static int
path_is(const char *path, int n, const char *const *want) {
  struct ref_seglist l;
  if (ref_path_to_segments((const uint8_t *)path, strlen(path), &l) != 0)
    return 0;
  return list_is(&l, n, want);
}
static int
opts_are(const char *uri, int host_is_dst, int n, const uint16_t *nums, const char *const *vals, const size_t *lens) {
  struct ref_uri u;
  struct ref_optlist ol;
  if (ref_uri_split((const uint8_t *)uri, strlen(uri), 0, &u) != 0)
    return 0;
  if (ref_uri_to_options(&u, host_is_dst, &ol) != 0)
    return 0;
  if (ol.n != n)
    return 0;
  for (int i = 0; i < n; i++)
    if (ol.o[i].num != nums[i] || ol.o[i].len != lens[i] || memcmp(ol.o[i].val, vals[i], lens[i]) != 0)
      return 0;
  return 1;
}
static uint32_t
reasons(const char *uri, int proxy) {
  struct ref_uri u;
  return ref_uri_split((const uint8_t *)uri, strlen(uri), proxy, &u);
}

int
ref_uri_selftest(void) {
  int t = 0;
#define T(c)                                                                                                          \
  do {                                                                                                                \
    t++;                                                                                                              \
    if (!(c))                                                                                                         \
      return t;                                                                                                       \
  } while (0)
  /* RFC 3986 5.2.4 worked examples */
  T(rds_is("/a/b/c/./../../g", "/a/g"));      /* 1 */
  T(rds_is("mid/content=5/../6", "mid/6"));   /* 2 */
  /* RFC 3986 5.4.1 / 5.4.2 (paths after merging with base /b/c/d;p) */
  T(rds_is("/b/c/./g", "/b/c/g"));            /* 3 */
  T(rds_is("/b/c/.", "/b/c/"));               /* 4 */
  T(rds_is("/b/c/..", "/b/"));                /* 5 */
  T(rds_is("/b/c/../g", "/b/g"));             /* 6 */
  T(rds_is("/b/c/../..", "/"));               /* 7 */
  T(rds_is("/b/c/../../g", "/g"));            /* 8 */
  T(rds_is("/b/c/../../../g", "/g"));         /* 9 */
  T(rds_is("/b/c/../../../../g", "/g"));      /* 10 */
  T(rds_is("/./g", "/g"));                    /* 11 */
  T(rds_is("/../g", "/g"));                   /* 12 */
  T(rds_is("/b/c/g.", "/b/c/g."));            /* 13 */
  T(rds_is("/b/c/.g", "/b/c/.g"));            /* 14 */
  T(rds_is("/b/c/g..", "/b/c/g.."));          /* 15 */
  T(rds_is("/b/c/..g", "/b/c/..g"));          /* 16 */
  T(rds_is("/b/c/./../g", "/b/g"));           /* 17 */
  T(rds_is("/b/c/./g/.", "/b/c/g/"));         /* 18 */
  T(rds_is("/b/c/g/./h", "/b/c/g/h"));        /* 19 */
  T(rds_is("/b/c/g/../h", "/b/c/h"));         /* 20 */
  T(rds_is("/b/c/g;x=1/./y", "/b/c/g;x=1/y")); /* 21 */
  T(rds_is("/b/c/g;x=1/../y", "/b/c/y"));     /* 22 */
  T(rds_is("", ""));                          /* 23 */
  T(rds_is("/", "/"));                        /* 24 */
  T(rds_is("//", "//"));                      /* 25 */

  /* percent decoding once */
  {
    uint8_t o[16];
    T(ref_pct_decode((const uint8_t *)"%252e", 5, o, sizeof o) == 3 && memcmp(o, "%2e", 3) == 0); /* 26 */
    T(ref_pct_decode((const uint8_t *)"%7E%7e", 6, o, sizeof o) == 2 && o[0] == '~' && o[1] == '~'); /* 27 */
    T(ref_pct_decode((const uint8_t *)"%", 1, o, sizeof o) == REF_E_PCT);   /* 28 */
    T(ref_pct_decode((const uint8_t *)"%a", 2, o, sizeof o) == REF_E_PCT);  /* 29 */
    T(ref_pct_decode((const uint8_t *)"%ag", 3, o, sizeof o) == REF_E_PCT); /* 30 */
    T(ref_pct_decode((const uint8_t *)"a%00b", 5, o, sizeof o) == 3 && o[1] == 0); /* 31 */
  }
  T(ref_segment_dots((const uint8_t *)".", 1) == 1);       /* 32 */
  T(ref_segment_dots((const uint8_t *)"%2e", 3) == 1);     /* 33 */
  T(ref_segment_dots((const uint8_t *)"%2E.", 4) == 2);    /* 34 */
  T(ref_segment_dots((const uint8_t *)"%2e%2E", 6) == 2);  /* 35 */
  T(ref_segment_dots((const uint8_t *)"...", 3) == 0);     /* 36 */
  T(ref_segment_dots((const uint8_t *)"%252e", 5) == 0);   /* 37 */
  T(ref_segment_dots((const uint8_t *)"%%2e", 4) == REF_E_PCT); /* 38 */

  /* RFC 7252 6.4 step 8 */
  {
    const char *w0[] = {"a", "g"};
    T(path_is("/a/b/c/./../../g", 2, w0));     /* 39 */
    const char *w1[] = {"a", ""};
    T(path_is("/a/", 2, w1));                  /* 40 */
    T(path_is("/a/.", 2, w1));                 /* 41: RFC 3986 5.2.4 2B keeps the slash */
    T(path_is("/a/b/..", 2, w1));              /* 42: 2C keeps the slash */
    T(path_is("/a/b/%2e%2E", 2, w1));          /* 43 */
    T(path_is("", 0, NULL));                   /* 44 */
    T(path_is("/", 0, NULL));                  /* 45 */
    T(path_is("/.", 0, NULL));                 /* 46 */
    T(path_is("/a/..", 0, NULL));              /* 47 */
    const char *w2[] = {"", "/", "", ""};
    T(path_is("//%2F//", 4, w2));              /* 48: RFC 7252 appendix B */
    const char *w3[] = {"%2e"};
    T(path_is("/%252e", 1, w3));               /* 49: decoded once, not a dot-segment */
    const char *w4[] = {"..a"};
    T(path_is("/x/%2e.a", 1, w4) == 0);        /* 50: "..a" is not a dot-segment, x stays */
    const char *w5[] = {"x", "..a"};
    T(path_is("/x/%2e.a", 2, w5));             /* 51 */
    struct ref_seglist l;
    T(ref_path_to_segments((const uint8_t *)"/a/%2", 5, &l) == REF_E_PCT); /* 52 */
    T(ref_path_to_segments((const uint8_t *)"/%zz/a", 6, &l) == REF_E_PCT); /* 53 */
    T(ref_query_to_segments((const uint8_t *)"%2F%2F&?%26", 11, &l) == 0 && l.n == 2 && l.len[0] == 2 &&
      memcmp(l.seg[0], "//", 2) == 0 && l.len[1] == 2 && memcmp(l.seg[1], "?&", 2) == 0); /* 54 */
    T(ref_query_to_segments((const uint8_t *)"a&&b", 4, &l) == 0 && l.n == 3 && l.len[1] == 0); /* 55 */
    T(ref_query_to_segments((const uint8_t *)"a&%4", 4, &l) == REF_E_PCT); /* 56 */
  }

  /* RFC 7252 appendix B / 6.3 */
  {
    const uint16_t n1[] = {3, 11, 11};
    const char *v1[] = {"example.net", ".well-known", "core"};
    const size_t l1[] = {11, 11, 4};
    T(opts_are("coap://example.net/.well-known/core", 0, 3, n1, v1, l1)); /* 57 */
    const uint16_t n2[] = {3};
    T(opts_are("coap://example.net/", 0, 1, n2, v1, l1));                 /* 58 */
    T(opts_are("coap://EXAMPLE.net", 0, 1, n2, v1, l1));                  /* 59 */
    T(opts_are("coap://[2001:db8::2:1]/", 1, 0, NULL, NULL, NULL));       /* 60 */
    const uint16_t n3[] = {7, 11, 11, 11, 11, 15, 15};
    const char *v3[] = {"\xf0\xb0", "", "/", "", "", "//", "?&"};
    const size_t l3[] = {2, 0, 1, 0, 0, 2, 2};
    T(opts_are("coap://198.51.100.1:61616//%2F//?%2F%2F&?%26", 1, 7, n3, v3, l3)); /* 61 */
    const uint16_t n4[] = {3, 11};
    const char *v4[] = {"xn--18j4d.example", "\xe3\x81\x93\xe3\x82\x93\xe3\x81\xab\xe3\x81\xa1\xe3\x81\xaf"};
    const size_t l4[] = {17, 15};
    T(opts_are("coap://xn--18j4d.example/%E3%81%93%E3%82%93%E3%81%AB%E3%81%A1%E3%81%AF", 0, 2, n4, v4, l4)); /* 62 */
    const uint16_t n5[] = {3, 11, 11};
    const char *v5[] = {"example.com", "~sensors", "temp.xml"};
    const size_t l5[] = {11, 8, 8};
    T(opts_are("coap://example.com:5683/~sensors/temp.xml", 0, 3, n5, v5, l5)); /* 63 */
    T(opts_are("coap://EXAMPLE.com/%7Esensors/temp.xml", 0, 3, n5, v5, l5));    /* 64 */
    T(opts_are("coap://EXAMPLE.com:/%7esensors/temp.xml", 0, 3, n5, v5, l5));   /* 65 */
    const uint16_t n6[] = {7};
    const char *v6[] = {"\x16\x33"};
    const size_t l6[] = {2};
    T(opts_are("coaps://[::1]:5683", 1, 1, n6, v6, l6)); /* 66: 5683 is not the coaps default */
    T(opts_are("coaps+tcp://[::1]:5684", 1, 0, NULL, NULL, NULL)); /* 67 */
    T(opts_are("coap+ws://[::1]:80/", 1, 0, NULL, NULL, NULL));    /* 68 */
    T(opts_are("coaps+ws://[::1]:443", 1, 0, NULL, NULL, NULL));   /* 69 */
  }

  /* validity */
  T(reasons("coap://a", 0) == 0);                              /* 70 */
  T(reasons("coap://a?b", 0) == 0);                            /* 71: path-abempty may be empty */
  T(reasons("coap://a:?b", 0) == 0);                           /* 72: empty port = default */
  T(reasons("coap://a:0/", 0) == 0);                           /* 73 */
  T(reasons("coap://a:65535", 0) == 0);                        /* 74 */
  T(reasons("coap://a:65536", 0) == REF_R_PORT_RANGE);         /* 75 */
  T(reasons("coap://a:99999999999999999999", 0) == REF_R_PORT_RANGE); /* 76 */
  T(reasons("coap://a:9a", 0) == REF_R_PORT_NONDIGIT);         /* 77 */
  T(reasons("coap://", 0) == REF_R_HOST_EMPTY);                /* 78 */
  T(reasons("coap:///a", 0) == REF_R_HOST_EMPTY);              /* 79 */
  T(reasons("coap://:9", 0) == REF_R_HOST_EMPTY);              /* 80 */
  T(reasons("coap://[", 0) == REF_R_IPLIT_UNTERMINATED);       /* 81 */
  T(reasons("coap://[]", 0) == REF_R_IPLIT_EMPTY);             /* 82 */
  T(reasons("coap://[::]a", 0) == REF_R_IPLIT_JUNK);           /* 83 */
  T(reasons("coap://[::]", 0) == 0);                           /* 84 */
  T(reasons("coap://[::9]:9/a?e", 0) == 0);                    /* 85 */
  T(reasons("coap://[a::e:2.9.9.9]", 0) == 0);                 /* 86 */
  T(reasons("coap://[1:2:3:4:5:6:7:8]", 0) == 0);              /* 87 */
  T(reasons("coap://[1:2:3:4:5:6:7]", 0) == REF_R_IPLIT_BAD);  /* 88 */
  T(reasons("coap://[1::2::3]", 0) == REF_R_IPLIT_BAD);        /* 89 */
  T(reasons("coap://[:a]", 0) == REF_R_IPLIT_BAD);             /* 90 */
  T(reasons("coap://[a]", 0) == REF_R_IPLIT_BAD);              /* 91 */
  T(reasons("coap://[a/]", 0) == (REF_R_IPLIT_DELIM | REF_R_PATH_CHAR)); /* 92: "]" lands in the path */
  T(reasons("coap://[v1.a:b]", 0) == 0);                       /* 93 */
  T(reasons("coap://a@b", 0) == REF_R_USERINFO);               /* 94 */
  T(reasons("coap://a/b#c", 0) == REF_R_FRAGMENT);             /* 95 */
  T(reasons("coap://a[", 0) == REF_R_HOST_CHAR);               /* 96 */
  T(reasons("coap://a%2/", 0) == REF_R_HOST_PCT);              /* 97 */
  T(reasons("coap://a%2e/", 0) == 0);                          /* 98 */
  T(reasons("coap://a/[", 0) == REF_R_PATH_CHAR);              /* 99 */
  T(reasons("coap://a/%", 0) == REF_R_PATH_PCT);               /* 100 */
  T(reasons("coap://a/%e", 0) == REF_R_PATH_PCT);              /* 101 */
  T(reasons("coap://a/%e9", 0) == 0);                          /* 102 */
  T(reasons("coap://a/?[", 0) == REF_R_QUERY_CHAR);            /* 103 */
  T(reasons("coap://a/?%9", 0) == REF_R_QUERY_PCT);            /* 104 */
  T(reasons("coap://a/?a/?:@", 0) == 0);                       /* 105 */
  T(reasons("http://a/", 0) == REF_R_SCHEME_PROXY_ONLY);       /* 106 */
  T(reasons("http://a/", 1) == 0);                             /* 107 */
  T(reasons("coapx://a/", 1) == REF_R_SCHEME_UNKNOWN);         /* 108 */
  T(reasons("/a", 0) == REF_R_NO_SCHEME);                      /* 109 */
  T(reasons("a", 0) == REF_R_NO_SCHEME);                       /* 110 */
  T(reasons("coap:a", 0) == REF_R_NO_AUTHORITY);               /* 111 */
  T(reasons("coap:/a", 0) == REF_R_NO_AUTHORITY);              /* 112 */
  T(reasons("", 0) == REF_R_EMPTY);                            /* 113 */
  T(reasons("COAP://a", 0) == 0);                              /* 114: schemes are case-insensitive */
  {
    struct ref_uri u;
    const char *s = "coaps+tcp://[::1]:99/a/b?c&d";
    T(ref_uri_split((const uint8_t *)s, strlen(s), 0, &u) == 0 && u.scheme == REF_COAPS_TCP && u.host.n == 3 &&
      memcmp(u.host.s, "::1", 3) == 0 && u.host_is_ipliteral && u.has_port && u.port == 99 && u.path.n == 4 &&
      memcmp(u.path.s, "/a/b", 4) == 0 && u.has_query && u.query.n == 3); /* 115 */
    s = "coap+tcp://h";
    T(ref_uri_split((const uint8_t *)s, strlen(s), 0, &u) == 0 && u.port == 5683 && !u.has_port && u.path.n == 0 &&
      !u.has_query); /* 116 */
    s = "https://h?";
    T(ref_uri_split((const uint8_t *)s, strlen(s), 1, &u) == 0 && u.port == 443 && u.has_query && u.query.n == 0); /* 117 */
  }

  /* RFC 7252 6.5 composing, and compose -> decompose is the identity for every list of <= 2 segments over
   * a byte alphabet that contains every delimiter (injective escaping), except RFC 7252 5.10.1's forbidden
   * "." / ".." path segments */
  {
    static const uint8_t al[] = {'a', '/', '%', '&', '?', '#', '.', '=', 0x00, 0xff, ' ', '2', 'e', ':', '@', '+'};
    const int A = (int)sizeof al;
    const int S = 1 + A + A * A; /* segments of length 0, 1, 2 */
    for (int kind = 0; kind < 2; kind++)
      for (int a = -1; a < S; a++)
        for (int b = -1; b < S; b++) {
          if (a < 0 && b >= 0)
            continue;
          struct ref_seglist l, back;
          int codes[2] = {a, b};
          l.n = 0;
          int has_dot = 0;
          for (int k = 0; k < 2; k++) {
            int c = codes[k];
            if (c < 0)
              continue;
            if (c == 0)
              l.len[l.n] = 0;
            else if (c <= A) {
              l.len[l.n] = 1;
              l.seg[l.n][0] = al[c - 1];
            } else {
              l.len[l.n] = 2;
              l.seg[l.n][0] = al[(c - 1 - A) / A];
              l.seg[l.n][1] = al[(c - 1 - A) % A];
            }
            if ((l.len[l.n] == 1 && l.seg[l.n][0] == '.') ||
                (l.len[l.n] == 2 && l.seg[l.n][0] == '.' && l.seg[l.n][1] == '.'))
              has_dot = 1;
            l.n++;
          }
          uint8_t str[64];
          if (kind == 0) {
            if (has_dot)
              continue;
            size_t n = ref_compose_path(&l, str, sizeof str);
            if (!n || ref_path_to_segments(str, n, &back) != 0 || !ref_seglist_equal_mod_empty(&l, &back))
              return 1000;
          } else {
            size_t n = ref_compose_query(&l, str, sizeof str);
            if (ref_query_to_segments(str, n, &back) != 0 || !ref_seglist_equal_mod_empty(&l, &back))
              return 1001;
          }
        }
    struct ref_seglist l;
    uint8_t str[32];
    l.n = 2;
    l.len[0] = 3;
    memcpy(l.seg[0], "a&b", 3);
    l.len[1] = 3;
    memcpy(l.seg[1], "/ %", 3);
    T(ref_compose_query(&l, str, sizeof str) == 13 && memcmp(str, "a%26b&/%20%25", 13) == 0); /* 118 */
    T(ref_compose_path(&l, str, sizeof str) == 14 && memcmp(str, "/a&b/%2F%20%25", 14) == 0);  /* 119 */
    l.n = 0;
    T(ref_compose_path(&l, str, sizeof str) == 1 && str[0] == '/'); /* 120 */
    T(ref_compose_query(&l, str, sizeof str) == 0);                 /* 121 */
  }
  return 0;
#undef T
}

#ifdef REFURI_SELFTEST_MAIN
#include <stdio.h>
int
main(void) {
  int r = ref_uri_selftest();
  printf("refuri selftest: %s (%d)\n", r ? "FAILED at vector" : "ok", r);
  return r != 0;
}
#endif
