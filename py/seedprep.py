#!/usr/bin/env python3
"""Prepare a round of blind seeding: seedprep.py <outdir> <ID>...
Creates /tmp/seedwt/<ID> (detached worktree of /repo HEAD) and <outdir>/<ID>/{property.json,ALREADY_DONE.txt};
<outdir>/INSTRUCTIONS.md is copied from the previous round with the paths rewritten.  Nothing from /verif's checks
goes there: only the text of the property and one-line descriptions of the changes that exist already."""
import json, os, subprocess, sys, glob, re
VERIF = os.path.dirname(os.path.dirname(os.path.abspath(__file__)))
out = sys.argv[1]
ids = sys.argv[2:]
os.makedirs(out, exist_ok=True)
props = {json.loads(l)["id"]: json.loads(l) for l in open(os.path.join(VERIF, "properties.jsonl"))}
HEAD = """Changes already produced for this property by others (do NOT repeat them, do not touch the same function, and pick a trigger from a different part of the property's quantifier; look for code paths, configurations and second-order situations the property depends on that none of these touches; the change must make a clause of the property STATEMENT false, not merely degrade behaviour):
"""
for i in ids:
    d = os.path.join(out, i)
    os.makedirs(d, exist_ok=True)
    json.dump(props[i], open(os.path.join(d, "property.json"), "w"), indent=1)
    lines = []
    for m in sorted(glob.glob(os.path.join(VERIF, "seeded", i + "-*", "meta.json")) + glob.glob(os.path.join(VERIF, "seeded-rejected", i + "-*", "meta.json"))):
        try:
            j = json.load(open(m))
        except Exception:
            continue
        lines.append("- %s [%s] -- trigger: %s" % (j.get("title", "?"), ", ".join(j.get("files_changed", [])), str(j.get("trigger", ""))[:160]))
    open(os.path.join(d, "ALREADY_DONE.txt"), "w").write(HEAD + "\n".join(lines) + "\n")
    wt = "/tmp/seedwt/" + i
    subprocess.run(["git", "-C", "/repo", "worktree", "remove", "--force", wt], capture_output=True)
    os.makedirs("/tmp/seedwt", exist_ok=True)
    r = subprocess.run(["git", "-C", "/repo", "worktree", "add", "--detach", wt, "HEAD"], capture_output=True, text=True)
    if r.returncode:
        print(r.stderr)
print("prepared", ids)
