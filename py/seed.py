#!/usr/bin/env python3
"""Seeded-change bookkeeping.

  seed.py import  <srcdir> <name>        copy patch.diff / demo / run.sh / meta.json from a sub-agent's output dir to seeded/<name>/
  seed.py confirm <name>                 scratch worktree: clean tree passes tests + demo holds; patched tree compiles,
                                         passes the 176 tests, demo reports the violation.  Worktree removed afterwards.
  seed.py run     <name> [Cxx ...] [--tier quick|thorough]
                                         git -C /repo apply, run the named checks (default: the seeded property),
                                         git -C /repo checkout -- . ; result in seeded/<name>/result.json
"""
import fcntl
import json
import os
import re
import shutil
import subprocess
import sys
import time

VERIF = os.path.dirname(os.path.dirname(os.path.abspath(__file__)))
REPO = os.environ.get("VERIF_REPO", "/repo")  # a vp run --with-repo sweeps on its own copy
SEEDED = os.path.join(VERIF, "seeded")


def sh(cmd, cwd=None, timeout=None):
    p = subprocess.run(cmd, shell=True, cwd=cwd, stdout=subprocess.PIPE, stderr=subprocess.STDOUT, text=True, timeout=timeout)
    return p.returncode, p.stdout


def do_import(src, name):
    dst = os.path.join(SEEDED, name)
    os.makedirs(dst, exist_ok=True)
    for f in os.listdir(src):
        if f in ("property.json",) or f.startswith("."):
            continue
        p = os.path.join(src, f)
        if os.path.isdir(p):
            continue
        if os.path.getsize(p) > 400_000:
            continue
        # skip built binaries
        with open(p, "rb") as fh:
            if fh.read(4) == b"\x7fELF":
                continue
        shutil.copy(p, os.path.join(dst, f))
    print("imported to", dst, sorted(os.listdir(dst)))


def build_and_test(tree):
    rc, out = sh("cmake -G Ninja -S . -B _build -DENABLE_TESTS=ON -DENABLE_DOCS=OFF >/dev/null && cmake --build _build 2>&1 | tail -3 && ./_build/testdriver | grep -E '^ +tests'", cwd=tree, timeout=600)
    m = re.search(r"tests\s+(\d+)\s+(\d+)\s+(\d+)\s+(\d+)", out)
    ok = rc == 0 and m is not None and m.group(1) == "176" and m.group(3) == "176" and m.group(4) == "0"
    return ok, out[-600:]


def do_confirm(name):
    d = os.path.join(SEEDED, name)
    wt = f"/tmp/seedcf/{name}"
    sh(f"git -C {REPO} worktree remove --force {wt}")
    os.makedirs("/tmp/seedcf", exist_ok=True)
    rc, out = sh(f"git -C {REPO} worktree add --detach {wt} HEAD")
    if rc:
        print(out)
        return 2
    res = {}
    try:
        ok, out = build_and_test(wt)
        res["clean_tests_pass"] = ok
        rc, out = sh(f"sh {d}/run.sh {wt}", cwd=d, timeout=600)
        res["clean_demo_rc"] = rc
        res["clean_demo_tail"] = out[-400:]
        res["clean_demo_says_holds"] = "PROPERTY HOLDS" in out
        rc, out = sh(f"git apply {d}/patch.diff", cwd=wt)
        res["patch_applies"] = rc == 0
        if rc:
            res["apply_out"] = out
        ok, out = build_and_test(wt)
        res["mutated_tests_pass"] = ok
        res["mutated_tests_tail"] = out[-300:]
        rc, out = sh(f"sh {d}/run.sh {wt}", cwd=d, timeout=600)
        res["mutated_demo_rc"] = rc
        res["mutated_demo_tail"] = out[-400:]
        res["mutated_demo_says_violated"] = "PROPERTY VIOLATED" in out
    finally:
        sh(f"git -C {REPO} worktree remove --force {wt}")
        sh(f"rm -rf {wt}")
        # demo build products
        sh("git clean -fdxq .", cwd=d) if False else None
    res["confirmed"] = bool(res.get("clean_tests_pass") and res.get("clean_demo_rc") == 0 and res.get("clean_demo_says_holds")
                            and res.get("patch_applies") and res.get("mutated_tests_pass") and res.get("mutated_demo_rc") not in (0, None)
                            and res.get("mutated_demo_says_violated"))
    json.dump(res, open(os.path.join(d, "confirm.json"), "w"), indent=1)
    print(json.dumps(res, indent=1))
    return 0 if res["confirmed"] else 1


def do_run(name, checks, tier):
    d = os.path.join(SEEDED, name)
    meta = json.load(open(os.path.join(d, "meta.json")))
    if not checks:
        checks = [meta["property"]]
    lock = open("/tmp/.seed-run%s.lock" % REPO.replace("/", "_"), "w")
    fcntl.flock(lock, fcntl.LOCK_EX)
    rc, out = sh(f"git -C {REPO} status --porcelain --untracked-files=no")
    if out.strip():
        print("/repo is not clean:", out)
        return 2
    results = {}
    saved = {}
    for c in checks:
        ev = os.path.join(VERIF, "evidence", c + ".json")
        if os.path.exists(ev):
            saved[ev] = open(ev).read()
    rc, out = sh(f"git -C {REPO} apply {d}/patch.diff")
    if rc:
        # the repository moved on (later fix: commits touched the context lines): three-way apply, unstage again
        rc, out = sh(f"git -C {REPO} apply --3way {d}/patch.diff && git -C {REPO} reset -q")
        if rc:
            sh(f"git -C {REPO} reset -q; git -C {REPO} checkout -- .")
            print("patch does not apply:", out)
            return 2
        print("(patch applied three-way: context changed by later commits)")
    try:
        for c in checks:
            t0 = time.time()
            rc, out = sh(f"bin/check {c} --tier {tier}", cwd=VERIF, timeout=7200)
            viol = [re.sub(r"replay=\S+ ", "", l)[:300] for l in out.splitlines() if l.startswith("VIOLATION")]
            results[c] = {"exit": rc, "violations": viol[:12], "n_violations": len(viol), "wall_s": round(time.time() - t0, 1),
                          "detected": rc == 1 and len(viol) > 0}
            if rc not in (0, 1):
                results[c]["tail"] = out[-1500:]
            print(c, "exit", rc, "violations", len(viol), f"{time.time()-t0:.0f}s")
            for v in viol[:6]:
                print("   ", v[:220])
    finally:
        sh(f"git -C {REPO} checkout -- .")
        for ev, txt in saved.items():
            open(ev, "w").write(txt)
    rp = os.path.join(d, "result.json")
    old = json.load(open(rp)) if os.path.exists(rp) else {}
    old.setdefault(tier, {}).update(results)
    json.dump(old, open(rp, "w"), indent=1)
    return 0


if __name__ == "__main__":
    a = sys.argv[1:]
    if not a:
        print(__doc__)
        sys.exit(2)
    if a[0] == "import":
        do_import(a[1], a[2])
    elif a[0] == "confirm":
        sys.exit(do_confirm(a[1]))
    elif a[0] == "run":
        tier = "quick"
        rest = a[2:]
        if "--tier" in rest:
            i = rest.index("--tier")
            tier = rest[i + 1]
            rest = rest[:i] + rest[i + 2:]
        sys.exit(do_run(a[1], rest, tier))
