#!/usr/bin/env python3
"""Hash-keyed builds of libcoap (from the *current working tree* of the repository) and of the
harness executables.  Nothing is taken from /repo/_build.

  lib(variant)                      -> directory holding libcoap.a for that variant
  harness(variant, name, srcs, ...) -> path of the linked harness executable

The cache key is the content hash of every file that can influence the objects (repo src/,
include/, build-system inputs, our cfg/ headers, the flags), so an edited source under /repo always
reaches the check and an unchanged tree costs one hash pass (~50 ms).
"""
import hashlib, os, subprocess, sys, shutil, time, glob, fcntl, contextlib
from concurrent.futures import ThreadPoolExecutor

VERIF = os.path.dirname(os.path.dirname(os.path.abspath(__file__)))
REPO = os.environ.get("VERIF_REPO", "/repo")
BUILD = os.path.join(VERIF, "build")
JOBS = int(os.environ.get("VERIF_JOBS", "16"))

SAN = ["-fsanitize=address,undefined", "-fsanitize=bounds-strict", "-fno-sanitize-recover=undefined",
       "-fno-omit-frame-pointer"]
VARIANTS = {
    # name: (cc, cflags, cfgdir, extra link flags)
    "asan": ("gcc", ["-O1", "-g"] + SAN, "std", SAN),
    "fast": ("gcc", ["-O2", "-g"], "std", []),
    # NDEBUG twin of asan: what the shipped build does when an assert would have fired
    "asan-ndebug": ("gcc", ["-O1", "-g", "-DNDEBUG"] + SAN, "std", SAN),
    # coap_subscribe.c must keep calling plain stdio symbols so that ld --wrap sees them
    "persist": ("gcc", ["-O1", "-g", "-fno-builtin", "-U_FORTIFY_SOURCE"] + SAN, "std", SAN),
    # thread harness: ASan only (UBSan's function instrumentation is not needed), asserts live
    "ts": ("gcc", ["-O1", "-g", "-fsanitize=address", "-fno-omit-frame-pointer"], "std", ["-fsanitize=address"]),
    "ts-ndebug": ("gcc", ["-O1", "-g", "-DNDEBUG", "-fsanitize=address", "-fno-omit-frame-pointer"], "std", ["-fsanitize=address"]),
    # race stage of C13: no sanitizer runtime; the library objects get -fsanitize=thread through the stage's lib_cflags (compile
    # only: the access hooks are defined by the harness, see harness/c13_race.h)
    "ts-plain-ndebug": ("gcc", ["-O1", "-g", "-DNDEBUG", "-fno-omit-frame-pointer"], "std", []),
    "tsan": ("clang", ["-O1", "-g", "-fsanitize=thread", "-fno-omit-frame-pointer"], "std", ["-fsanitize=thread"]),
}

LIB_SKIP = {"coap_io_contiki.c", "coap_io_lwip.c", "coap_io_riot.c", "coap_mbedtls.c",
            "coap_openssl.c", "coap_tinydtls.c", "coap_wolfssl.c"}


def log(*a):
    print("[build]", *a, file=sys.stderr, flush=True)


def _hash_files(paths, extra=b""):
    h = hashlib.sha256()
    h.update(extra)
    for p in sorted(paths):
        h.update(p.encode())
        try:
            with open(p, "rb") as f:
                h.update(f.read())
        except OSError:
            h.update(b"<missing>")
    return h.hexdigest()[:16]


def repo_inputs():
    fs = []
    for d in ("src", "include"):
        for root, _, files in os.walk(os.path.join(REPO, d)):
            for f in files:
                if f.endswith((".c", ".h", ".in")):
                    fs.append(os.path.join(root, f))
    for f in ("CMakeLists.txt", "cmake_coap_config.h.in", "cmake_coap_defines.h.in", "configure.ac"):
        fs.append(os.path.join(REPO, f))
    return fs


def cfg_inputs(cfg):
    fs = []
    for root, _, files in os.walk(os.path.join(VERIF, "cfg", cfg)):
        for f in files:
            fs.append(os.path.join(root, f))
    return fs


def lib_sources():
    srcs = [p for p in sorted(glob.glob(os.path.join(REPO, "src", "*.c")))
            if os.path.basename(p) not in LIB_SKIP]
    srcs += sorted(glob.glob(os.path.join(REPO, "src", "oscore", "*.c")))
    return srcs


def _run(cmd):
    r = subprocess.run(cmd, stdout=subprocess.PIPE, stderr=subprocess.STDOUT, text=True)
    return r.returncode, r.stdout


def _prune(prefix, keep=6):
    ds = sorted(glob.glob(os.path.join(BUILD, prefix + "-*")), key=os.path.getmtime, reverse=True)
    for d in ds[keep:]:
        shutil.rmtree(d, ignore_errors=True)


@contextlib.contextmanager
def _locked(name):
    os.makedirs(BUILD, exist_ok=True)
    with open(os.path.join(BUILD, ".lock-" + name), "w") as lf:
        fcntl.flock(lf, fcntl.LOCK_EX)
        try:
            yield
        finally:
            fcntl.flock(lf, fcntl.LOCK_UN)


def variant_spec(variant):
    if variant in VARIANTS:
        return VARIANTS[variant]
    raise SystemExit("unknown variant " + variant)


def lib(variant, cfgdir_override=None, extra_cflags=(), tag=None):
    """Build libcoap.a for `variant`; returns (dir, include flags)."""
    with _locked("lib-" + (tag or variant)):
        return _lib(variant, cfgdir_override, extra_cflags, tag)


def _lib(variant, cfgdir_override=None, extra_cflags=(), tag=None):
    cc, cflags, cfg, _ = variant_spec(variant)
    cflags = list(cflags) + list(extra_cflags)
    cfgdir = cfgdir_override or os.path.join(VERIF, "cfg", cfg)
    cfg_files = []
    for root, _, files in os.walk(cfgdir):
        cfg_files += [os.path.join(root, f) for f in files]
    key = _hash_files(repo_inputs() + cfg_files, (cc + " ".join(cflags)).encode())
    name = tag or variant
    out = os.path.join(BUILD, "%s-%s" % (name, key))
    inc = ["-I" + cfgdir, "-I" + os.path.join(REPO, "include")]
    if os.path.exists(os.path.join(out, "libcoap.a")):
        os.utime(out)
        return out, inc
    t0 = time.time()
    os.makedirs(os.path.join(out, "obj"), exist_ok=True)
    srcs = lib_sources()
    base = [cc, "-std=gnu99", "-w", "-D_GNU_SOURCE", "-DHAVE_CONFIG_H"] + cflags + inc

    def one(src):
        o = os.path.join(out, "obj", os.path.basename(src)[:-2] + ".o")
        fl = list(base)
        rc, txt = _run(fl + ["-c", src, "-o", o])
        return rc, txt, o, src

    objs = []
    with ThreadPoolExecutor(JOBS) as ex:
        for rc, txt, o, src in ex.map(one, srcs):
            if rc != 0:
                sys.stderr.write(txt)
                shutil.rmtree(out, ignore_errors=True)
                raise SystemExit("BUILD-FAILED compiling %s (variant %s)" % (src, variant))
            objs.append(o)
    rc, txt = _run(["ar", "rcs", os.path.join(out, "libcoap.a")] + objs)
    if rc != 0:
        sys.stderr.write(txt)
        raise SystemExit("BUILD-FAILED ar")
    log("libcoap %s built in %.1fs -> %s" % (name, time.time() - t0, out))
    _prune(name)
    return out, inc


def cmake_cfg(extra_args=(), tag="cmakecfg"):
    """Runs the repository's own CMake configure step on the current tree (configure only, nothing is compiled)
    and returns a directory with the coap_config.h / coap3/coap_defines.h it emitted."""
    ins = [os.path.join(REPO, f) for f in ("CMakeLists.txt", "cmake_coap_config.h.in", "cmake_coap_defines.h.in")]
    for root, _, files in os.walk(os.path.join(REPO, "cmake")):
        ins += [os.path.join(root, f) for f in files]
    key = _hash_files(ins, " ".join(extra_args).encode())
    out = os.path.join(BUILD, "%s-%s" % (tag, key))
    with _locked(tag):
        if os.path.exists(os.path.join(out, "coap3", "coap_defines.h")):
            os.utime(out)
            return out
        t0 = time.time()
        scratch = "/dev/shm/verif-cmake-%d" % os.getpid()
        shutil.rmtree(scratch, ignore_errors=True)
        try:
            rc, txt = _run(["cmake", "-G", "Ninja", "-S", REPO, "-B", scratch, "-DENABLE_DOCS=OFF", "-DENABLE_EXAMPLES=OFF",
                            "-DENABLE_TESTS=OFF"] + list(extra_args))
            if rc != 0:
                sys.stderr.write(txt)
                raise SystemExit("BUILD-FAILED cmake configure")
            os.makedirs(os.path.join(out, "coap3"), exist_ok=True)
            shutil.copy(os.path.join(scratch, "coap_config.h"), os.path.join(out, "coap_config.h"))
            shutil.copy(os.path.join(scratch, "include", "coap3", "coap_defines.h"), os.path.join(out, "coap3", "coap_defines.h"))
        finally:
            shutil.rmtree(scratch, ignore_errors=True)
        log("cmake configure (%s) in %.1fs -> %s" % (" ".join(extra_args), time.time() - t0, out))
        _prune(tag)
    return out


def autotools_cfg(extra_args=(), tag="autotoolscfg"):
    """Runs the repository's own autotools configure step (autogen.sh + ./configure with its defaults) on a scratch
    copy of the current tree and returns a directory with the coap_config.h / coap3/coap_defines.h it emitted.
    Nothing is compiled by it; the scratch copy is removed straight afterwards."""
    ins = [os.path.join(REPO, f) for f in ("configure.ac", "Makefile.am", "autogen.sh", "coap_config.h.in",
                                           "include/coap3/coap_defines.h.in", "libcoap-3.pc.in")]
    ins = [f for f in ins if os.path.exists(f)]
    for root, _, files in os.walk(os.path.join(REPO, "m4")):
        ins += [os.path.join(root, f) for f in files if f.endswith(".m4") and not f.startswith(("libtool", "lt"))]
    key = _hash_files(ins, " ".join(extra_args).encode())
    out = os.path.join(BUILD, "%s-%s" % (tag, key))
    with _locked(tag):
        if os.path.exists(os.path.join(out, "coap3", "coap_defines.h")):
            os.utime(out)
            return out
        t0 = time.time()
        scratch = "/dev/shm/verif-autotools-%d" % os.getpid()
        shutil.rmtree(scratch, ignore_errors=True)
        try:
            rc, txt = _run(["rsync", "-a", "--exclude", ".git", "--exclude", "_build",
                            REPO + "/", scratch + "/"])
            if rc != 0:
                sys.stderr.write(txt)
                raise SystemExit("BUILD-FAILED autotools copy")
            rc, txt = _run(["sh", "-c", "cd %s && ./autogen.sh >/dev/null 2>&1 && ./configure --disable-doxygen "
                            "--disable-manpages --disable-examples %s" % (scratch, " ".join(extra_args))])
            if rc != 0:
                sys.stderr.write(txt[-4000:])
                raise SystemExit("BUILD-FAILED autotools configure")
            os.makedirs(os.path.join(out, "coap3"), exist_ok=True)
            shutil.copy(os.path.join(scratch, "coap_config.h"), os.path.join(out, "coap_config.h"))
            shutil.copy(os.path.join(scratch, "include", "coap3", "coap_defines.h"), os.path.join(out, "coap3", "coap_defines.h"))
        finally:
            shutil.rmtree(scratch, ignore_errors=True)
        log("autotools configure (%s) in %.1fs -> %s" % (" ".join(extra_args), time.time() - t0, out))
        _prune(tag)
    return out


COMMON_SRCS = ["vx/vx.c"]


def harness(variant, name, srcs, wraps=(), libs=("-lgnutls",), extra_cflags=(), lib_cflags=(),
            cfgdir_override=None, tag=None, defines=()):
    """Compile + link a harness executable against the variant's libcoap.a."""
    with _locked("h-" + name + "-" + (tag or variant)):
        return _harness(variant, name, srcs, wraps, libs, extra_cflags, lib_cflags, cfgdir_override, tag, defines)


def _harness(variant, name, srcs, wraps=(), libs=("-lgnutls",), extra_cflags=(), lib_cflags=(),
             cfgdir_override=None, tag=None, defines=()):
    cc, cflags, cfg, ldflags = variant_spec(variant)
    libdir, inc = lib(variant, cfgdir_override=cfgdir_override, extra_cflags=lib_cflags, tag=tag)
    srcs = [os.path.join(VERIF, s) for s in srcs]
    hdrs = glob.glob(os.path.join(VERIF, "vx", "*.h")) + glob.glob(os.path.join(VERIF, "seams", "*.h")) + \
        glob.glob(os.path.join(VERIF, "ref", "*.h")) + glob.glob(os.path.join(VERIF, "harness", "*.h"))
    key = _hash_files(srcs + hdrs, (libdir + " ".join(cflags) + " ".join(wraps) + " ".join(libs) +
                                    " ".join(extra_cflags) + " ".join(defines)).encode())
    exe = os.path.join(libdir, "h-%s-%s" % (name, key))
    if os.path.exists(exe):
        return exe
    for old in glob.glob(os.path.join(libdir, "h-%s-*" % name)):
        try:
            os.unlink(old)
        except OSError:
            pass
    t0 = time.time()
    odir = os.path.join(libdir, "hobj-%s-%d" % (name, os.getpid()))
    shutil.rmtree(odir, ignore_errors=True)
    os.makedirs(odir)
    base = [cc, "-std=gnu11", "-Wall", "-Wno-unused-function", "-Wno-deprecated-declarations", "-Wno-format-truncation"] + list(cflags) + \
        list(extra_cflags) + ["-D" + d for d in defines] + inc + \
        ["-I" + os.path.join(VERIF, d) for d in ("vx", "seams", "ref", "harness")]

    def one(src):
        o = os.path.join(odir, os.path.basename(src)[:-2] + ".o")
        rc, txt = _run(base + ["-c", src, "-o", o])
        return rc, txt, o, src

    objs = []
    with ThreadPoolExecutor(JOBS) as ex:
        for rc, txt, o, src in ex.map(one, srcs):
            if txt.strip():
                sys.stderr.write(txt)
            if rc != 0:
                raise SystemExit("HARNESS-BUILD-FAILED compiling %s" % src)
            objs.append(o)
    link = [cc] + list(ldflags) + ["-no-pie"] + objs + [os.path.join(libdir, "libcoap.a")] + \
        ["-Wl,--wrap=" + w for w in wraps] + list(libs) + ["-lpthread", "-lm"] + ["-o", exe]
    rc, txt = _run(link)
    if rc != 0:
        sys.stderr.write(txt)
        raise SystemExit("HARNESS-BUILD-FAILED linking %s" % name)
    shutil.rmtree(odir, ignore_errors=True)
    log("harness %s (%s) built in %.1fs" % (name, variant, time.time() - t0))
    return exe


if __name__ == "__main__":
    v = sys.argv[1] if len(sys.argv) > 1 else "asan"
    print(lib(v)[0])
