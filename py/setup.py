#!/usr/bin/env python3
import os, sys
VERIF = os.path.dirname(os.path.dirname(os.path.abspath(__file__)))
sys.path.insert(0, os.path.join(VERIF, "py"))
import build, check
for pid, stages in sorted(check.REG.items()):
    for st in stages:
        if st.get("custom_build"):
            continue
        check.build_stage(st)
print("setup ok")
