#!/usr/bin/env python3
"""Offline setup: warm the build cache (libcoap variants + harnesses) for every check claimed in MANIFEST.json."""
import json, os, sys
VERIF = os.path.dirname(os.path.dirname(os.path.abspath(__file__)))
sys.path.insert(0, os.path.join(VERIF, "py"))
import build, check
claimed = {c["property_id"] for c in json.load(open(os.path.join(VERIF, "MANIFEST.json")))["checks"]}
for pid, stages in sorted(check.REG.items()):
    for st in stages:
        try:
            check.build_stage(st)
        except SystemExit as e:
            if pid in claimed:
                raise
            print("setup: skipping unclaimed %s (%s)" % (pid, e))
print("setup ok")
