#!/usr/bin/env python3
"""Regenerates /verif/MANIFEST.json from reg/*.json (which checks exist) and the texts below."""
import json, os, sys

VERIF = os.path.dirname(os.path.dirname(os.path.abspath(__file__)))

META = {
    "C01": dict(engine="vx-inproc", technique="exhaustive enumeration of API build scripts (all option insertion orders) against a list model + reference encoder/decoder",
                text="Bounded exhaustive enumeration of PDU build scripts on the real coap_pdu API for UDP/TCP/WS framing; every script's bytes are compared byte-for-byte with an independent RFC 7252/8323/8974 encoder, re-parsed by libcoap and compared with a list model; refusals must be explained by the reference and leave the message unchanged.",
                note="Bound: option sequences <=3 (quick) / <=4 (thorough) over a boundary alphabet of (number,length) pairs, token and payload length classes, max_size classes; trusted: the reference codec in ref/refmsg.c (self-tested)."),
    "C02": dict(engine="vx-inproc+netsim", technique="exhaustive enumeration of short byte strings, of all single-field mutations of valid messages in a catalogue of endpoint states, of block-number sequences and of frame sequences x stream segmentations, ASan/UBSan + canary oracle",
                text="Every byte string up to a length bound over full/boundary alphabets through the real parser and debug printer, and every single-field mutation of the catalogue's valid messages delivered to real endpoints in reached protocol states (block transfers, observe, TCP/WS sessions), under ASan/UBSan with live asserts; afterwards a canary request must be answered correctly and malformed input must not reach handlers. Also: every field-level rewrite (type x code x token x options kept/dropped) of every datagram of the UDP exchanges, all sequences of Block1/Q-Block1 requests in hostile order, and frame sequences on TCP/WS under every segmentation with <=2 cuts.",
                note="Not all byte strings: bounded lengths/alphabets, single mutations per state, block-number sequences <=5/6 over 0..11, 2-3 frames x <=2 cuts (see DESIGN 4, 7.4); trusted: sanitizers, the harness's classification of malformed input (ref decoder)."),
    "C03": dict(engine="vx-inproc", technique="exhaustive differential enumeration of byte strings and single-field mutations against an independent reference decoder",
                text="Exhaustive differential check of coap_pdu_parse (and the stream size/header functions) against an independent RFC 7252/8323/8974 decoder: all byte strings <=3 after 21+ header variants, boundary-alphabet strings up to 5/6 bytes, and every single-field mutation of a corpus of valid encodings; accept/reject must agree in both directions and accepted messages must decode identically. Space fits-exactly: well-formed messages at the top of what a receive PDU of size 60 / 1148 may hold, three framings.",
                note="Bound: lengths/alphabets as stated in evidence; trusted: ref/refcodec.c (self-tested against hand-encoded vectors)."),
    "C04": dict(engine="vx-inproc", technique="explicit-state BFS over edit histories on real PDUs with canonical-state dedup against a list model",
                text="Breadth-first search over sequences of insert/update/remove/retoken/duplicate edits applied to real coap_pdu_t objects (fresh and parsed, tight and roomy allocations), deduplicated on the canonical (model, allocator fields) state; after every edit the accessor dump, the re-serialised bytes and the internal size fields must equal the abstract list model.",
                note="Bound: depth and <=5-option cap, edit alphabet chosen to cross every delta/length encoding threshold; trusted: ref/refmsg.c."),
    "C05": dict(engine="vx-inproc+netsim", technique="exhaustive cut-placement enumeration plus explicit-state search over stream-reader states (all 2^(N-1) segmentations)",
                text="A real libcoap TCP/WebSocket server session is fed fixed valid byte streams (CSM/HTTP upgrade + messages covering all length/token/frame forms, a buffer-filling read, the 32-bit length form in a valid 65.8 KB message, an oversize length, a length above a configured maximum, legal and over-long handshake lines, short streams during which the server writes a Ping of its own after every read) under every placement of <=2/3 read boundaries, byte-wise, and - by BFS over the reader's state with state merging - all 2^(N-1) segmentations; the messages reaching the handler must equal what was composed and the bytes written back must not depend on the segmentation.",
                note="Server direction only; fixed streams (9) rather than all message sequences; the search over all segmentations runs on the short streams in quick and on all streams in thorough, a search that meets its deadline is reported in cap_hit; state merging relies on the dumped reader fields (listed in the harness); recv() on harness-owned descriptors is served by the harness, coap_socket_read/write stay real."),
    "C06": dict(engine="vx-netsim", technique="deviation-bounded exhaustive schedule exploration (stateless DFS over delivery/loss/duplication/timer choices) of the real client with a trace monitor",
                text="Real libcoap client context against raw peers on a simulated network with a virtual clock: the full configuration product (ACK_TIMEOUT x ACK_RANDOM_FACTOR x MAX_RETRANSMIT x random byte x peer silence x ACK/RST), all 2^10 drop subsets of the first 10 datagrams, and all schedules with <=2/3 deviations for multi-message scripts sharing one send queue; a monitor written from RFC 7252 4.2/4.8 predicts for every coap_io_prepare_io() call which messages must be retransmitted or given up and checks byte identity, single outcome and the reported wait time.",
                note="Also Confirmable notifications created inside coap_io_prepare_io and two sessions with equal message ids; netsim checks every returned wait time against the send queue. Bound: <=3 messages on <=2 sessions, deviation bound 2 (quick) / 3 (thorough); delivery latency 0; no ping_timeout; a nack callback with sent==NULL is not counted as a message outcome."),
    "C07": dict(engine="vx-netsim", technique="deviation-bounded exhaustive schedule exploration of real client + real server (piggybacked / separate / async) with callback and wire monitors",
                text="Real libcoap client against a real libcoap server (piggybacked, async-trigger and async-delay separate responses) and raw peers (empty ACK + separate NON/CON in either order): sequences of 1-3 requests (also submitted back to back, with a first request that is given up, and with a second session of the same context in back-off sharing the send queue), all schedules with <=2..4 drop/duplicate/reorder deviations and all 2^10 drop subsets for the piggybacked style, timers only when the network is empty; monitors check exactly-one conclusion per CON request, no retransmission after a response, ACK/RST of every CON response incl. duplicates, FAIL => RST, NON once per datagram.",
                note="One exchange outstanding per session; servers answer before client timers; raw peers idempotent and token-echoing; two genuine upstream limitations are listed in known_findings.json."),
    "C08": dict(engine="vx-netsim", technique="deviation-bounded exhaustive schedule exploration of the real client against an ACK/RST-only raw peer with an in-flight monitor",
                text="Real libcoap client session (NSTART 1..4) against a raw peer that only ACKs/RSTs what it received: all CON/NON type vectors of bursts of 1-4(5) messages in one or two bursts with a bystander session, long bursts of 8/13/20 messages, message-id wrap inside a burst, a given-up first CON, the socket refusing a transmission, an ICMP unreachable notice, all schedules with <=1..3 deviations (drop/duplicate/reorder, timer-first, RST or silence as verdict incl. RST for a NON); the monitor derives the in-flight set from the wire and checks |in-flight| <= NSTART at every first transmission, FIFO release of held CONs as soon as a slot frees, NON never delayed, nothing lost.",
                note="UDP sessions; the not-yet-established clause is exercised with DTLS in C19; bound as in evidence."),
    "C09": dict(engine="vx-netsim", technique="exhaustive size/configuration sweep plus deviation-bounded schedule exploration of real block-wise client and server",
                text="Real libcoap client and server doing Block1/Block2 on the application's behalf: fault-free sweep over body lengths around every block-size multiple x SZX x MTU x delivery mode x CON/NON, and all schedules with <=1/2 deviations for representative transfers; the receiver must get exactly the sender's body (once, or as tiling blocks), handlers only see application tokens, every datagram fits the MTU, release callbacks run exactly once.",
                note="Bounds per evidence; 64 KiB bodies fault-free only."),
    "C10": dict(engine="vx-inproc+netsim", technique="exhaustive product enumeration of request features x resource tables through the real receive path against an executable decision table",
                text="Full Cartesian product of request type x code x token x Uri-Path x option subsets (<=2/3; plus a repetition sweep: every defined option twice; plus the <=1-option product on a session the peer last used with the other destination class) x destination x resource table injected as datagrams into a real server endpoint; replies are compared with an independent decision table of the statement's rules (reply count, token/mid echo, code priority order, handler invocation, No-Response and multicast suppression). The third space also uses message ids 0x0000 / 0xFFFF.",
                note="Request datagrams only (responses are C07); where the statement is silent nothing is compared."),
    "C11": dict(engine="vx-netsim", technique="exhaustive enumeration of observe operation sequences x deviation-bounded schedules with a per-observer reference automaton",
                text="All register/change/cancel/re-register/RST/delete/close operation sequences up to depth 4/6 by 1-2 clients and a raw observer on 2 resources, each under all schedules with <=1/2 deviations; a per-observer automaton checks tokens, strictly increasing Observe values (RFC 7641 serial order), a CON at least every sixth notification, eventual notification of the last state, silence after deregistration, single entry on re-registration, session kept alive. Deviations include the socket refusing the first transmission after a change once (the notification has to be tried again). A family in which both observers use equal token bytes (on different sessions).",
                note="Bounds per evidence."),
    "C12": dict(engine="vx-netsim", technique="exhaustive enumeration of session-lifecycle operation sequences (UDP and raw TCP peers, observations, async, references, disconnects, time jumps) with teardown after every prefix against a reference model of events and reference holders, ASan/LSan and allocator counters",
                text="All sequences up to depth 5/7 of requests from distinct/identical peers, observe, async, application reference/release, time jumps across the session timeout and context teardown; session identity per peer tuple, one NEW/DEL event pair per server session, no reclamation while referenced, idle reclamation and eviction, and a leak/double-free/use-after-free-clean teardown (ASan, LSan, per-tag allocation counters). Stage c12many: 1..50 distinct peers x max_idle_sessions {0,1,2,3,7,N-1,N,N+1} x 6 request patterns against a model of the idle set (oldest idle reclaimed at the limit, held sessions never). Stage c12cli: two client sessions of one context, all sequences (depth 6/7) of send CON/NON, application release/reference, peer answer/reset, retransmission timer and give-up followed by teardown; a session must never be freed while the application or a queued Confirmable holds it and exactly once in the end. Spaces mops: a request to a multicast group whose response waits in the send queue for the leisure delay is the only holder of its server session.",
                note="Bounds per evidence (old alphabet depth 5/6, enlarged alphabet with TCP peer / several observations / disconnect depth 4/5); peers <= 4 + one TCP peer."),
    "C13": dict(engine="vx-sched", technique="preemption-bounded exhaustive exploration of thread interleavings under a cooperative scheduler over the real lock operations, scheduling points inside every application callback; vector-clock happens-before race detection over compiler-instrumented memory accesses on every explored schedule",
                text="Real pthreads serialised by a futex hand-off scheduler with scheduling points at every global-lock operation and I/O wait; all schedules with <=2/3 preemptions of 2-3 API threads plus an I/O thread, callbacks re-entering the API; invariants: lock ownership on entry to every *_lkd function (via -finstrument-functions), no deadlock/livelock, lock free at the end; the library is compiled twice, with the configuration headers each of the repository's two build systems emits on the current tree (CMake configure: plain lock; autogen.sh + ./configure defaults: the recursive-check lock variant), and the whole exploration runs on both. Scenario families include call-outs nested inside callbacks and more ready sockets than one epoll_wait of the library takes. Stages c13race / c13raceat run the same exploration on library objects compiled with the compiler's memory-access instrumentation (-fsanitize=thread, compile only) against a happens-before detector of the harness (vector clocks per thread and per mutex; the scheduler's hand-offs are not synchronisation): on every explored schedule every byte of non-stack memory touched by library code must be ordered by lock operations between conflicting accesses of different threads.",
                note="Sequential consistency assumed; scheduling points at lock operations, inside callbacks, I/O waits and a sleep operation; the race detector sees the library's own loads and stores (not those made inside libc / GnuTLS on its behalf) and reports three known unlocked-accessor findings (known_findings.json); all callback kinds incl. ping/pong/cache/release/persistence call-outs re-enter the API."),
    "C14": dict(engine="vx-inproc", technique="exhaustive product enumeration and exhaustive enumeration of exchange sequences (Observe register/cancel on two tokens) differential against an independent RFC 8613 implementation, exhaustive single-bit tampering",
                text="Full product of message shapes x security contexts (ids 0-7 bytes, ID Context absent / 1 / 8 / 23 / 24 / 25 / 40 bytes, salt, secret) x partial IVs: libcoap's protected output must equal an independent RFC 8613 implementation (OpenSSL AES-CCM/HKDF, validated on the Appendix C vectors) byte for byte and unprotect to the original; every single-bit flip and truncation of the protected part and every one-parameter context change must be rejected. Stage c14seq: all histories (depth 5/6) of GET / Observe register / cancel on two tokens and resource changes against a real libcoap OSCORE server, and (depth 4/5) the same with tampered, replayed and unknown-kid datagrams in between: every response and notification must verify under the binding of the right request, rejected datagrams never reach a handler.",
                note="Trusted: OpenSSL primitives, ref/refoscore.c validated by RFC 8613 Appendix C vectors."),
    "C15": dict(engine="vx-inproc", technique="explicit-state BFS over delivery histories on a real recipient context against a set-based replay-window reference; exhaustive crash-point enumeration on the sender",
                text="All histories up to depth 4/6 over fresh(gap)/late/replay/forge deliveries to a real OSCORE recipient context for several window sizes and B.1.2 on/off: at-most-once acceptance, forgeries leave state and all depth-1 continuations unchanged; sender: every crash point between save callbacks for several ssn_freq, no partial IV reuse across restarts, including lineages that reach the end of the 40-bit Partial IV space. Every protected datagram the recipient emits is filed under the nonce it uses (own Partial IV or the request's): two different ciphertexts under one nonce fail; under B.1.2 the first request is delivered twice. Forgeries include one with a ciphertext shorter than the authentication tag.",
                note="Bounds per evidence; forged/late messages are manufactured by the reference implementation."),
    "C16": dict(engine="vx-inproc", technique="exhaustive string enumeration over boundary alphabets with exact-size heap inputs (ASan) against an RFC 3986/7252 reference; exhaustive injectivity check",
                text="All URI/path/query strings up to length 5-7 over boundary alphabets, all output buffer sizes, and all short segment lists over the full byte range through the public URI functions; results must equal an independent RFC 3986 / RFC 7252 6.4-6.5 reference, reconstruction must be injective and round-trip, and no byte outside the length-delimited input is read. Long segments (option header boundary, 255-byte limit) through every buffer size, also followed by dot-segments that remove later segments.",
                note="Bounds per evidence; trusted: ref/refuri.c."),
    "C17": dict(engine="vx", technique="exhaustive crash-point enumeration (kill before every stdio/rename call of every history, histories continuing across graceful and kill restarts) with restart in a fresh process",
                text="All histories up to depth 4/6 of dynamic-resource and observe operations with persistence enabled; the process is killed before every tracked stdio/rename call; each file must be the complete pre- or post-update content, and a fresh process must restore every resource and observation and continue Observe numbering above anything sent before.",
                note="Process-death crash model (SIGKILL semantics), real stdio on tmpfs."),
    "C18": dict(engine="vx-netsim", technique="exhaustive allocation-failure injection (every index k, and every pair for most scenarios, of every catalogue scenario) with ASan/LSan and canary oracle",
                text="For every scenario of a fixed catalogue and every index k of an allocation made through coap_malloc_type/coap_realloc_type, exactly the k-th allocation fails; no crash, no invalid access, no leak (LSan + per-tag counters), ownership rules hold, and follow-up canary exchanges with memory available succeed, one on a fresh session and one on the scenario's own session. Catalogue: request/response, async, Block1, Block2, observe, URI helpers, TCP, WebSocket, set-up/tear-down, raw block-wise peers without size options, OSCORE, resource discovery with a block-wise listing, 2500-byte bodies in 1024-byte blocks.",
                note="Only allocations through libcoap's funnel; GnuTLS/uthash raw malloc outside."),
    "C19": dict(engine="vx-netsim", technique="deviation-bounded exhaustive schedule exploration of real DTLS (GnuTLS) client and server over the simulated network, credential product",
                text="Real GnuTLS-backed DTLS client and server contexts over the simulated network with a virtual clock: product of client identity/key x server key table configurations, loss/duplication/reorder of handshake and record datagrams within a deviation bound, cleartext CoAP injected at one step or before every step of the whole scenario (a persistent attacker, also between the abandonment of a stalled handshake and the reclamation of the dead session); handlers run only after a handshake with matching credentials, nothing queued leaves in clear, each queued CON gets exactly one NACK on failure, queued messages are delivered in order exactly once on success. The product is repeated with a client context in COAP_BLOCK_USE_LIBCOAP mode whose last queued Confirmable registers an observation. SNI scenarios are repeated after a refused attempt from the address and port of the client under test.",
                note="PSK only, GnuTLS only; DTLS under loss/duplication/reordering, TLS (over the simulated TCP stream) for the credential product without faults; includes a server choosing the key by SNI with a filled SNI cache, servers without identity hint, survival of the loss of the first handshake flight."),
    "C20": dict(engine="vx-inproc", technique="exhaustive enumeration of resource tables x filters x all (offset, buffer length) windows against an RFC 6690 reference; exhaustive block-wise GET over the simulated network for tables x filters x Block2 sizes, differential against the in-process listing",
                text="All subsets (<=3/4) of a catalogue of resource shapes x 15 filters x every (offset, buflen) window up to the listing length + 2 through coap_print_wellknown / coap_print_link; the full listing must equal the reference RFC 6690 listing as a set of links, every window must be exactly that slice with exact total length and truncation flag, nothing written outside the buffer. Stage c20get: block-wise GET of the listing by a raw client for tables x filters x Block2 sizes x size switch x {no / an application unknown-resource handler}, re-assembled body compared with the in-process listing, same ETag on every block.",
                note="Trusted: ref/reflink.c; the block-wise GET clause is stage c20get (COAP_BLOCK_USE_LIBCOAP servers only: without it libcoap does no block-wise transfer)."),
}

REASON_NOT_BUILT = "check not built yet in this session (work in progress; see DESIGN.md 3 for the planned exhaustive core)"


def main():
    props = [json.loads(l) for l in open(os.path.join(VERIF, "properties.jsonl"))]
    regs = {}
    for fn in sorted(os.listdir(os.path.join(VERIF, "reg"))):
        if fn.endswith(".json"):
            d = json.load(open(os.path.join(VERIF, "reg", fn)))
            regs[d["property_id"]] = d
    extra_na = {}
    p = os.path.join(VERIF, "not_applicable.json")
    if os.path.exists(p):
        extra_na = json.load(open(p))
    checks, na = [], []
    for pr in props:
        pid = pr["id"]
        if pid in regs and pid not in extra_na:
            m = META[pid]
            checks.append({
                "property_id": pid,
                "quick_cmd": "bin/check %s --tier quick" % pid,
                "thorough_cmd": "bin/check %s --tier thorough" % pid,
                "evidence_file": "evidence/%s.json" % pid,
                "replay_cmd_template": "bin/check %s --replay {path}" % pid,
                "engine": m["engine"],
                "level_claimed": {"category": "model_checking", "text": m["text"], "design_ref": "DESIGN.md 3 (%s)" % pid},
                "level_note": m["note"],
                "technique": m["technique"],
            })
        else:
            na.append({"property_id": pid, "reason": extra_na.get(pid, REASON_NOT_BUILT)})
    man = {
        "version": 1,
        "setup_cmd": "bin/setup",
        "hooks": {
            "guard": "LIBCOAP_VERIF_HOOKS",
            "enable": "no source hooks: every seam is reached at link time (ld --wrap, symbol interposition from the harness executable); checks compile /repo/src + /repo/include with /verif/cfg headers into /verif/build",
            "baseline_off_cmd": "bin/baseline",
            "source_commits": [],
            "add_only": True,
        },
        "engines": [
            {"name": "vx-netsim", "path": "vx/vx.c + harness/netsim.c", "serves_properties": ["C06", "C07", "C08", "C09", "C11", "C12", "C18", "C19"],
             "kind_free_text": "stateless deviation-bounded exhaustive explorer over forked executions of the real library on a simulated network with a virtual clock"},
            {"name": "vx-inproc", "path": "vx/vx.c (vxp)", "serves_properties": ["C01", "C02", "C03", "C04", "C05", "C10", "C14", "C15", "C16", "C20"],
             "kind_free_text": "exhaustive sliced in-process enumeration / explicit-state BFS over the real library against reference oracles"},
            {"name": "vx-sched", "path": "vx/vx.c + harness/c13_threads.c (scheduler over interposed pthread_mutex_* and -finstrument-functions)", "serves_properties": ["C13"], "kind_free_text": "preemption-bounded cooperative scheduler over real pthreads"},
        ],
        "checks": checks,
        "notes": "All checks are bounded exhaustive explorations of the real libcoap code built from /repo's working tree; see DESIGN.md. known_findings.json lists genuine defects (known / fixed).",
        "not_applicable": na,
    }
    with open(os.path.join(VERIF, "MANIFEST.json"), "w") as f:
        json.dump(man, f, indent=1)
    print("MANIFEST: %d checks, %d not claimed" % (len(checks), len(na)))


if __name__ == "__main__":
    main()
