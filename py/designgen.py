#!/usr/bin/env python3
"""Regenerates the generated blocks of DESIGN.md (between <!-- BEGIN:x --> / <!-- END:x --> markers) from
known_findings.json, seeded/*/, evidence/by_tier/ and reg/."""
import glob
import json
import os
import re
import subprocess

V = os.path.dirname(os.path.dirname(os.path.abspath(__file__)))


def esc(s):
    return str(s).replace("|", "\\|").replace("\n", " ")


def fixes_table():
    d = json.load(open(os.path.join(V, "known_findings.json")))
    rows = ["| property | commit | signature the check reported | what failed |", "|---|---|---|---|"]
    for f in d["findings"]:
        if f["status"] != "fixed":
            continue
        what = re.sub(r"^fixed: property=\S+ \S+ ", "", f.get("what", ""))
        rows.append("| %s | `%s` | `%s` | %s |" % (f["property"], f.get("commit", "")[:7], esc(f["signature"])[:90], esc(what)[:400]))
    return "\n".join(rows)


def known_table():
    d = json.load(open(os.path.join(V, "known_findings.json")))
    rows = ["| property | signature | what fails | minimal failing case |", "|---|---|---|---|"]
    for f in d["findings"]:
        if f["status"] != "known":
            continue
        rows.append("| %s | `%s` | %s | %s |" % (f["property"], esc(f["signature"]), esc(f.get("what", ""))[:500], esc(f.get("minimal_case", ""))[:300]))
    return "\n".join(rows)


def seeded_table():
    rows = ["| seed | aimed at | change (file) | trigger | caught by (quick tier; first signature) | not caught by |", "|---|---|---|---|---|---|"]
    for d in sorted(glob.glob(os.path.join(V, "seeded", "*", ""))):
        name = os.path.basename(os.path.dirname(d))
        try:
            m = json.load(open(d + "meta.json"))
        except Exception:
            continue
        r = {}
        if os.path.exists(d + "result.json"):
            r = json.load(open(d + "result.json"))
        caught, missed = [], []
        for tier in ("quick", "thorough"):
            for c, v in sorted(r.get(tier, {}).items()):
                if v.get("detected"):
                    sig = ""
                    if v.get("violations"):
                        mm = re.search(r"sig=(\S+)", v["violations"][0])
                        sig = mm.group(1) if mm else ""
                    caught.append("%s%s (`%s`)" % (c, "" if tier == "quick" else "[thorough]", esc(sig)[:70]))
                else:
                    missed.append(c + ("" if tier == "quick" else "[thorough]"))
        hist = ""
        if os.path.exists(d + "history.txt"):
            hist = " " + esc(open(d + "history.txt").read().strip())
        rows.append("| %s | %s | %s (%s) | %s | %s%s | %s |" % (name, m.get("property"), esc(m.get("title", ""))[:160], esc(",".join(m.get("files_changed", [])))[:60],
                                                           esc(m.get("trigger", ""))[:260], "; ".join(caught) or "**none**", hist, ", ".join(missed) or "-"))
    return "\n".join(rows)


def asbuilt_table():
    rows = ["| id | stages (variant) | quick: states / transitions / executions on the real code / distinct non-trivial / wall | thorough: same | exhaustive within the stated bound (q / t) |",
            "|---|---|---|---|---|"]
    for reg in sorted(glob.glob(os.path.join(V, "reg", "C*.json"))):
        rj = json.load(open(reg))
        pid = rj["property_id"]
        st = ", ".join("%s (%s)" % (s["name"], s["variant"]) for s in rj["stages"])
        cells = []
        ex = []
        for tier in ("quick", "thorough"):
            p = os.path.join(V, "evidence", "by_tier", "%s.%s.json" % (pid, tier))
            if not os.path.exists(p):
                cells.append("(not recorded)")
                ex.append("?")
                continue
            e = json.load(open(p))
            c = e["coverage"]
            cells.append("%s / %s / %s / %s / %ss" % (c.get("states"), c.get("transitions"), c.get("traces_validated_against_impl"), c.get("distinct_nontrivial"), int(e.get("wall_s", 0))))
            ex.append("yes" if c.get("exhaustive") else "no: " + esc("; ".join(c.get("cap_hit", [])))[:160])
        rows.append("| %s | %s | %s | %s | %s / %s |" % (pid, st, cells[0], cells[1], ex[0], ex[1]))
    return "\n".join(rows)


def main():
    p = os.path.join(V, "DESIGN.md")
    s = open(p).read()
    for name, fn in (("fixes", fixes_table), ("known", known_table), ("seeded", seeded_table), ("asbuilt", asbuilt_table)):
        a, b = "<!-- BEGIN:%s -->" % name, "<!-- END:%s -->" % name
        if a in s and b in s:
            i, j = s.index(a) + len(a), s.index(b)
            s = s[:i] + "\n" + fn() + "\n" + s[j:]
    open(p, "w").write(s)


if __name__ == "__main__":
    main()
