#!/usr/bin/env python3
"""bin/check <Cxx> [--tier quick|thorough] [--replay file] [--budget s]

Builds libcoap from the repository's current working tree (hash-keyed cache), builds the property's
harness, runs it, matches failure signatures against known_findings.json, writes
evidence/<id>.json and prints VIOLATION / KNOWN-FINDING lines.  Exit 0 / 1 (violation) / 2 (harness error).
"""
import json, os, subprocess, sys, time

VERIF = os.path.dirname(os.path.dirname(os.path.abspath(__file__)))
sys.path.insert(0, os.path.join(VERIF, "py"))
import build  # noqa

NS_WRAPS = ["coap_socket_bind_udp", "coap_socket_connect_udp", "coap_socket_send", "coap_socket_recv",
            "coap_socket_close", "coap_socket_bind_tcp", "coap_socket_accept_tcp", "coap_socket_connect_tcp1",
            "coap_socket_connect_tcp2"]
NETSIM = ["vx/vx.c", "harness/netsim.c"]

# property -> list of harness stages (one executable each), loaded from /verif/reg/<Cxx>.json
# stage keys: name, variant, srcs, wraps ("NS" expands to the netsim wrap list), libs, defines, cflags, quick, thorough (budgets, s)
def load_reg():
    reg = {}
    d = os.path.join(VERIF, "reg")
    for fn in sorted(os.listdir(d)):
        if not fn.endswith(".json"):
            continue
        with open(os.path.join(d, fn)) as f:
            doc = json.load(f)
        stages = []
        for st in doc["stages"]:
            st = dict(st)
            w = []
            for x in st.get("wraps", []):
                w += NS_WRAPS if x == "NS" else [x]
            st["wraps"] = w
            stages.append(st)
        reg[doc["property_id"]] = stages
    return reg


REG = load_reg()


def build_stage(st):
    cfg = None
    if st.get("cfg") == "cmake":
        cfg = build.cmake_cfg(tuple(st.get("cmake_args", ())), tag="cmakecfg" + st.get("cfgtag", ""))
    elif st.get("cfg") == "autotools":
        cfg = build.autotools_cfg(tuple(st.get("configure_args", ())), tag="autotoolscfg" + st.get("cfgtag", ""))
    return build.harness(st["variant"], st["name"], st["srcs"], wraps=st.get("wraps", ()),
                         libs=st.get("libs", ("-lgnutls",)), defines=st.get("defines", ()),
                         extra_cflags=st.get("cflags", ()), lib_cflags=st.get("lib_cflags", ()),
                         cfgdir_override=cfg, tag=st.get("tag"))


def load_known():
    p = os.path.join(VERIF, "known_findings.json")
    if not os.path.exists(p):
        return []
    with open(p) as f:
        return json.load(f).get("findings", [])


def main():
    args = sys.argv[1:]
    if not args:
        print(__doc__)
        return 2
    pid = args[0]
    tier = os.environ.get("VERIF_TIER", "quick")
    replay = None
    budget = None
    extra = []
    i = 1
    while i < len(args):
        if args[i] == "--tier":
            tier = args[i + 1]; i += 2
        elif args[i] == "--replay":
            replay = args[i + 1]; i += 2
        elif args[i] == "--budget":
            budget = float(args[i + 1]); i += 2
        else:
            extra.append(args[i]); i += 1
    if pid not in REG:
        print("no check registered for", pid)
        return 2
    seed = int(os.environ.get("VERIF_SEED", "0") or 0)
    t0 = time.time()
    os.makedirs(os.path.join(VERIF, "build", "out"), exist_ok=True)
    os.makedirs(os.path.join(VERIF, "evidence"), exist_ok=True)
    results = []
    rc_all = 0
    for st in REG[pid]:
        exe = build_stage(st)
        out = os.path.join(VERIF, "build", "out", "%s.%s.json" % (pid, st["name"]))
        if os.path.exists(out):
            os.unlink(out)
        cmd = [exe, "--tier", tier, "--out", out, "--replaydir", os.path.join(VERIF, "replay", pid)]
        b = budget if budget is not None else st.get(tier, 60)
        cmd += ["--budget", str(b)]
        if replay:
            cmd += ["--replay", os.path.abspath(replay)]
        cmd += extra
        env = dict(os.environ)
        env["VERIF_REPO"] = build.REPO
        r = subprocess.run(cmd, cwd=VERIF, env=env)
        if replay:
            if r.returncode in (0, 1):
                return r.returncode
            # scenario lists differ per tier: try the other tier before giving up on this stage
            other = "thorough" if tier == "quick" else "quick"
            cmd2 = [other if x == tier and i > 0 and cmd[i - 1] == "--tier" else x for i, x in enumerate(cmd)]
            r = subprocess.run(cmd2, cwd=VERIF, env=env)
            if r.returncode in (0, 1):
                return r.returncode
            continue  # this stage did not recognise the replay file
        if r.returncode not in (0, 1) or not os.path.exists(out):
            print("HARNESS-ERROR property=%s stage=%s exit=%d" % (pid, st["name"], r.returncode))
            rc_all = 2
            continue
        with open(out) as f:
            results.append(json.load(f))
    if replay:
        print("replay file not recognised by any stage")
        return 2
    if rc_all == 2 and not results:
        return 2

    known = [k for k in load_known() if k.get("property") == pid]
    ev = {"property_id": pid, "tier": tier, "seed": seed, "level": "model_checking", "coverage": {}, "assumptions": [],
          "wall_s": 0.0, "violations": 0}
    cov = ev["coverage"]
    for k in ("states", "transitions", "traces_validated_against_impl", "evaluations", "distinct_nontrivial"):
        cov[k] = sum(int(r["coverage"].get(k, 0)) for r in results)
    cov["rule"] = " || ".join(r["coverage"].get("rule", "") for r in results if r["coverage"].get("rule"))
    cov["exhaustive"] = all(r["coverage"].get("exhaustive", False) for r in results) and rc_all == 0
    cov["cap_hit"] = sum((r["coverage"].get("cap_hit", []) for r in results), [])
    cov["samples"] = sum((r["coverage"].get("samples", []) for r in results), [])
    for r in results:
        for k, v in r["coverage"].items():
            if k not in cov:
                cov[k] = v
        for a in r.get("assumptions", []):
            if a not in ev["assumptions"]:
                ev["assumptions"].append(a)
    viol = 0
    seen_known = []
    lines = []
    for r in results:
        for f in r.get("failures", []):
            sig = f["sig"]
            match = None
            for k in known:
                if k.get("status") == "known" and k.get("signature") == sig:
                    match = k
            if match:
                lines.append("KNOWN-FINDING: property=%s %s [sig=%s]" % (pid, match.get("what", ""), sig))
                seen_known.append(sig)
            else:
                viol += 1
                lines.append("VIOLATION property=%s replay=%s sig=%s msg=%s" % (pid, f.get("replay", ""), sig, f.get("msg", "")))
    cov["known_findings_seen"] = seen_known
    ev["violations"] = viol
    ev["wall_s"] = round(time.time() - t0, 2)
    if cov.get("states", 0) < 1:
        cov["states"] = max(1, cov.get("evaluations", 0))
    if cov.get("transitions", 0) < 1:
        cov["transitions"] = max(1, cov.get("evaluations", 0))
    tmp = os.path.join(VERIF, "evidence", pid + ".json.tmp")
    with open(tmp, "w") as f:
        json.dump(ev, f, indent=1)
    os.replace(tmp, os.path.join(VERIF, "evidence", pid + ".json"))
    # per-tier copy of the last clean run (DESIGN.md's tables are generated from these)
    if viol == 0 and os.environ.get("VERIF_REPO", "/repo") == "/repo":
        try:
            os.makedirs(os.path.join(VERIF, "evidence", "by_tier"), exist_ok=True)
            with open(os.path.join(VERIF, "evidence", "by_tier", "%s.%s.json" % (pid, tier)), "w") as f:
                json.dump(ev, f, indent=1)
        except OSError:
            pass
    for l in lines:
        print(l)
    print("RESULT property=%s tier=%s violations=%d known=%d exhaustive=%s wall=%.1fs" %
          (pid, tier, viol, len(seen_known), cov["exhaustive"], ev["wall_s"]))
    if viol:
        return 1
    return rc_all


if __name__ == "__main__":
    sys.exit(main())
