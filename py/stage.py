#!/usr/bin/env python3
"""Development aid: stage.py <Cxx> <stage> [harness args...] -- build one stage of a check and run it directly."""
import os, sys, subprocess
sys.path.insert(0, os.path.dirname(os.path.abspath(__file__)))
import check, build
pid, name = sys.argv[1], sys.argv[2]
st = [s for s in check.REG[pid] if s["name"] == name][0]
exe = check.build_stage(st)
out = "/dev/shm/stage-%s.json" % name
cmd = [exe, "--tier", os.environ.get("VERIF_TIER", "quick"), "--out", out, "--replaydir", "/dev/shm/stage-replay"] + sys.argv[3:]
if "--budget" not in sys.argv:
    cmd += ["--budget", str(st.get("quick", 60))]
env = dict(os.environ); env["VERIF_REPO"] = build.REPO
sys.exit(subprocess.run(cmd, cwd=check.VERIF, env=env).returncode)
