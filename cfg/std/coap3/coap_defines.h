/* /verif harness build configuration of libcoap (variant "std"): same feature set as the
 * repository's CMake default except: no epoll (the harness drives coap_io_prepare_io /
 * coap_io_do_io itself) and no thread-safe locking (single-threaded harnesses; C13 uses the
 * configuration emitted by the repository's own build system instead). */
#ifndef COAP_DEFINES_H_
#define COAP_DEFINES_H_
#define COAP_AF_UNIX_SUPPORT 1
#define COAP_ASYNC_SUPPORT 1
#define COAP_CLIENT_SUPPORT 1
#define COAP_DISABLE_TCP 0
#define COAP_IPV4_SUPPORT 1
#define COAP_IPV6_SUPPORT 1
#define COAP_MAX_LOGGING_LEVEL 8
#define COAP_OSCORE_SUPPORT 1
#define COAP_PROXY_SUPPORT 1
#define COAP_Q_BLOCK_SUPPORT 1
#define COAP_SERVER_SUPPORT 1
#define COAP_WITH_LIBGNUTLS 1
#define COAP_WITH_OBSERVE_PERSIST 1
#define COAP_WS_SUPPORT 1
#endif
