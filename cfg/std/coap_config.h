/*
 * cmake_coap_config.h -- cmake configuration for libcoap
 *
 * Copyright (C) 2020      Carlos Gomes Martinho <carlos.gomes_martinho@siemens.com>
 * Copyright (C) 2021-2024 Jon Shallow <supjps-libcoap@jpshallow.com>
 *
 * SPDX-License-Identifier: BSD-2-Clause
 *
 * This file is part of the CoAP library libcoap. Please see README for terms
 * of use.
 */

#ifndef COAP_CONFIG_H_
#define COAP_CONFIG_H_

#if ! defined(_WIN32)
#define _GNU_SOURCE
#endif

#include <coap3/coap_defines.h>

/* Define to 1 if you have the <arpa/inet.h> header file. */
#define HAVE_ARPA_INET_H 1

/* Define to 1 if you have the <assert.h> header file. */
#define HAVE_ASSERT_H 1

/* Define to 1 if you have the <byteswap.h> header file. */
#define HAVE_BYTESWAP_H 1

/* Define to 1 if you have the <dlfcn.h> header file. */
/* #undef HAVE_DLFCN_H */

/* Define to 1 if you have the <sys/epoll.h> header file. */
/* no epoll in the harness build: select-style driver */

/* Define to 1 if you have the <errno.h> header file. */
#define HAVE_ERRNO_H 1

/* Define to 1 if you have the <float.h> header file. */
#define HAVE_FLOAT_H 1

/* Define to 1 if you have the `getaddrinfo' function. */
#define HAVE_GETADDRINFO 1

/* Define to 1 if you have the `getrandom' function. */
#define HAVE_GETRANDOM 1

/* Define to 1 if you have the <ifaddrs.h> header file. */
#define HAVE_IFADDRS_H 1

/* Define to 1 if you have the `if_nametoindex' function. */
#define HAVE_IF_NAMETOINDEX 1

/* Define to 1 if you have the <inttypes.h> header file. */
#define HAVE_INTTYPES_H 1

/* Define to 1 if you have the <limits.h> header file. */
#define HAVE_LIMITS_H 1

/* Define to 1 if you have the `malloc' function. */
#define HAVE_MALLOC 1

/* Define to 1 if you have the <memory.h> header file. */
#define HAVE_MEMORY_H 1

/* Define to 1 if you have the `memset' function. */
#define HAVE_MEMSET 1

/* Define to 1 if you have the <netdb.h> header file. */
#define HAVE_NETDB_H 1

/* Define to 1 if you have the <net/if.h> header file. */
#define HAVE_NET_IF_H 1

/* Define to 1 if you have the <netinet/in.h> header file. */
#define HAVE_NETINET_IN_H 1

/* Define to 1 if you have the <pthread.h> header file. */
#define HAVE_PTHREAD_H 1

/* Define to 1 if you have the `pthread_mutex_lock' function. */
#define HAVE_PTHREAD_MUTEX_LOCK 1

/* Define to 1 if you have the `select' function. */
#define HAVE_SELECT 1

/* Define to 1 if you have the `socket' function. */
#define HAVE_SOCKET 1

/* Define to 1 if you have the <stdbool.h> header file. */
#define HAVE_STDBOOL_H 1

/* Define to 1 if you have the <stddef.h> header file. */
#define HAVE_STDDEF_H 1

/* Define to 1 if you have the <stdint.h> header file. */
#define HAVE_STDINT_H 1

/* Define to 1 if you have the <stdlib.h> header file. */
#define HAVE_STDLIB_H 1

/* Define to 1 if you have the `strcasecmp' function. */
#define HAVE_STRCASECMP 1

/* Define to 1 if you have the <strings.h> header file. */
#define HAVE_STRINGS_H 1

/* Define to 1 if you have the <string.h> header file. */
#define HAVE_STRING_H 1

/* Define to 1 if you have the `strnlen' function. */
#define HAVE_STRNLEN 1

/* Define to 1 if you have the `strrchr' function. */
#define HAVE_STRRCHR 1

/* Define to 1 if you have the `randon' function. */
#define HAVE_RANDOM 1

/* Define to 1 if the system has the type `struct cmsghdr'. */
#define HAVE_STRUCT_CMSGHDR 1

/* Define to 1 if you have the <sys/ioctl.h> header file. */
#define HAVE_SYS_IOCTL_H 1

/* Define to 1 if you have the <sys/socket.h> header file. */
#define HAVE_SYS_SOCKET_H 1

/* Define to 1 if you have the <sys/stat.h> header file. */
#define HAVE_SYS_STAT_H 1

/* Define to 1 if you have the <sys/sysctl.h> header file. */
/* #undef HAVE_SYS_SYSCTL_H */

/* Define to 1 if you have the <sys/time.h> header file. */
#define HAVE_SYS_TIME_H 1

/* Define to 1 if you have the <sys/types.h> header file. */
#define HAVE_SYS_TYPES_H 1

/* Define to 1 if you have the <sys/unistd.h> header file. */
#define HAVE_SYS_UNISTD_H 1

/* Define to 1 if you have the <time.h> header file. */
#define HAVE_TIME_H 1

/* Define to 1 if you have the <sys/timerfd.h> header file. */
/* no timerfd */

/* Define to 1 if you have the <unistd.h> header file. */
#define HAVE_UNISTD_H 1

/* Define to 1 if you have <winsock2.h> header file. */
/* #undef HAVE_WINSOCK2_H */

/* Define to 1 if you have <ws2tcpip.h> header file. */
/* #undef HAVE_WS2TCPIP_H */

/* Define to the address where bug reports for this package should be sent. */
#define PACKAGE_BUGREPORT "libcoap-developers@lists.sourceforge.net"

/* Define to the full name of this package. */
#define PACKAGE_NAME "libcoap"

/* Define to the full name and version of this package. */
#define PACKAGE_STRING "libcoap 4.3.5"

/* Define to the one symbol short name of this package. */
#define PACKAGE_TARNAME "libcoap"

/* Define to the home page for this package. */
#define PACKAGE_URL "https://libcoap.net/"

/* Define to the version of this package. */
#define PACKAGE_VERSION "4.3.5"

#if defined(_MSC_VER) && (_MSC_VER < 1900) && !defined(snprintf)
#define snprintf _snprintf
#endif

#endif /* COAP_CONFIG_H_ */
